#!/bin/sh
# run a check against a seeded change in a scratch worktree (never touches /repo's working tree)
# usage: tools/try_seeded.sh <seeded-id> <PROP> [bin/check args...]
cd "$(dirname "$0")/.."
id=$1; prop=$2; shift 2
d=$(mktemp -d /tmp/verif-mut-XXXXXX)
git -C /repo worktree add -q --detach "$d/wt" HEAD || exit 2
cp /repo/src/gtirb_rewriting/version.py "$d/wt/src/gtirb_rewriting/"
git -C "$d/wt" apply "$PWD/seeded/$id/patch.diff" || { git -C /repo worktree remove --force "$d/wt"; rm -rf "$d"; exit 2; }
VERIF_REPO="$d/wt" VERIF_EVIDENCE_DIR="$d/ev" VERIF_OUT_DIR="$d/out" bin/check "$prop" "$@" 2>&1 | grep -v "^KNOWN-FINDING" | grep -E "VIOLATION|class=|witness=|quick:|thorough:|HARNESS" | cut -c1-400 | head -8
git -C /repo worktree remove --force "$d/wt"; rm -rf "$d"
