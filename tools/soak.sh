#!/bin/sh
# quick sweep under several VERIF_SEED values: shakes out alarms on the unchanged tree
# usage: tools/soak.sh <first-seed> <last-seed>
cd "$(dirname "$0")/.."
mkdir -p out/soak
s=$1
while [ $s -le $2 ]; do
  echo "=== seed $s"
  SEED=$s tools/sweep.sh | grep -v "exit=0 " 
  for p in C01 C02 C03 C04 C05 C06 C07 C08 C09 C10 C11 C13 C15 C16 C17 C18 C19 C20; do
    if ! tail -1 out/q_$p.log | grep -q "exit=0"; then cp out/q_$p.log out/soak/q_${p}_seed$s.log; fi
  done
  s=$((s+1))
done
echo "=== soak done"
