"""In-process triage helper: explore seeds, shrink the first violation of
each distinct signature, print the minimal scenario with dumps.
usage: triage.py PROP N [params-json] [--skip k] [--max m] [--dump]"""
import sys, json, copy, time
sys.path.insert(0, '/verif')
from sim import core
core.use_repo_override()
core.install_seams()
from sim import engines
from sim.props import PROPS
from sim.check import sig_key

def main():
    prop = sys.argv[1]; n = int(sys.argv[2])
    cfg = PROPS.get(prop, {"engine": "rwsim"})
    params = dict(cfg.get("params") or {})
    if len(sys.argv) > 3 and sys.argv[3].startswith('{'):
        params.update(json.loads(sys.argv[3]))
    eng = engines.get(cfg["engine"])
    maxv = int(sys.argv[sys.argv.index('--max')+1]) if '--max' in sys.argv else 3
    base = int(sys.argv[sys.argv.index('--base')+1]) if '--base' in sys.argv else 1
    seen = {}
    import collections
    verd = collections.Counter()
    for i in range(n):
        seed = core.derive(base, prop, i)
        sc, res = eng.run(prop, seed, params)
        verd[res['verdict']] += 1
        if res['verdict'] == 'violation':
            key = (res['vclass'], sig_key(res.get('sig')))
            if key in seen:
                seen[key][2] += 1
                continue
            seen[key] = [sc, res, 1]
            if len(seen) >= maxv:
                break
        elif res['verdict'] != 'ok':
            print(i, seed, res['verdict'], res.get('why'))
    print(verd)
    for key, (sc, res, cnt) in seen.items():
        t0 = time.time()
        evals = 0
        improved = True
        while improved and time.time() - t0 < 60:
            improved = False
            for cand in eng.shrink_candidates(prop, sc):
                evals += 1
                r = eng.replay(prop, copy.deepcopy(cand), params)
                if r['verdict'] == 'violation' and (r['vclass'], sig_key(r.get('sig'))) == key:
                    sc, res = cand, r
                    improved = True
                    break
        print('=' * 70)
        print(key, 'count', cnt, 'shrink evals', evals)
        print(json.dumps(res.get('witness'), default=str)[:800])
        print(json.dumps(eng.describe(sc)))
        path = f'/verif/out/triage-{prop}-{core.digest(sc)}.json'
        import os
        os.makedirs('/verif/out', exist_ok=True)
        json.dump({"property": prop, "engine": cfg["engine"], "params": params, "scenario": sc,
                   "violation": {"class": res['vclass'], "sig": res.get('sig'), "witness": res.get('witness'), "witness_digest": core.digest(res.get('witness'))}}, open(path, 'w'), indent=1, default=str)
        print(path)
        if '--dump' in sys.argv and hasattr(eng, 'debug_dump'):
            print(eng.debug_dump(prop, sc, params))

main()
