#!/venv/bin/python
"""Which lines of the library do the simulations execute?  (in-process, a few
hundred seeds per property, under coverage.py; a blind-spot finder, not a check)
usage: tools/cov.py [N] [PROP ...]"""
import json
import os
import sys

sys.path.insert(0, os.path.dirname(os.path.dirname(os.path.abspath(__file__))))
import coverage

cov = coverage.Coverage(source=["/repo/src/gtirb_rewriting"], data_file=None)
cov.start()
from sim import core

core.install_seams()
from sim import engines
from sim.props import PROPS

n = int(sys.argv[1]) if len(sys.argv) > 1 else 200
props = sys.argv[2:] or sorted(PROPS)
for prop in props:
    cfg = PROPS[prop]
    eng = engines.get(cfg["engine"])
    params = dict(cfg.get("params") or {})
    if prop == "C11":
        params["other_hashseed_p"] = 0.0  # (helper interpreters are not measured)
    for i in range(n):
        s = core.derive(4242, prop, cfg["engine"], i)
        try:
            eng.run(prop, s, params)
        except Exception as e:
            print("harness", prop, i, type(e).__name__, str(e)[:100], file=sys.stderr)
    print("ran", prop, file=sys.stderr)
cov.stop()
out = os.path.join(os.path.dirname(os.path.dirname(os.path.abspath(__file__))), "out", "cov")
os.makedirs(out, exist_ok=True)
cov.report(show_missing=True, file=open(os.path.join(out, "report.txt"), "w"))
print(open(os.path.join(out, "report.txt")).read())
