#!/bin/sh
# run every claimed check once (quick tier unless TIER is set); summary per property
cd "$(dirname "$0")/.."
mkdir -p out
rc=0
for p in ${PROPS:-C01 C02 C03 C04 C05 C06 C07 C08 C09 C10 C11 C13 C15 C16 C17 C18 C19 C20}; do
  bin/check $p --tier ${TIER:-quick} ${SEED:+--seed $SEED} ${RUNS:+--runs $RUNS} > out/q_$p.log 2>&1
  e=$?
  [ $e -ne 0 ] && rc=1
  echo "$p exit=$e $(tail -1 out/q_$p.log | cut -c1-170)"
done
exit $rc
