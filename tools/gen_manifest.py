"""Regenerate MANIFEST.json from sim/props.py (keeps it valid and in sync)."""
import json, sys
sys.path.insert(0, "/verif")
from sim.props import PROPS

TECH = {
    "rwsim": "deterministic simulation: seeded edit histories + schedule (UUID stream, node-hash salt, PYTHONHASHSEED, registration order) against a listing reference model, fault injection in user callbacks",
    "ctsim": "deterministic simulation: seeded operation histories on the containers vs abstract models, exceptions injected inside the cache contexts",
    "cfisim": "deterministic simulation: seeded directive histories vs a reference DWARF CFI interpreter, consumer/generator interleaving, ill-formed event injection",
    "asmsim": "deterministic simulation: fragmentation schedules of assemble() chunks (enumerated cut sets per sampled text)",
    "machsim": "deterministic simulation: emitted prologue/epilogue/CallPatch executed on a simulated CPU with havoc body and asynchronous signal injection",
}
DESIGN_REF = {"rwsim": "3", "ctsim": "4.3", "cfisim": "4.2", "asmsim": "4.1", "machsim": "4.4"}
NA = [
    {"property_id": "C12", "reason": "pure function of the assembly text and constructor flags: no history, schedule, fault or interleaving to simulate (DESIGN.md section 6); chunking is C13's"},
    {"property_id": "C14", "reason": "pure codec over values/byte order/pointer size: no history, schedule or fault dimension (DESIGN.md section 6)"},
]
ALL = [f"C{i:02d}" for i in range(1, 21)]
PENDING_ENGINES = {"asmsim"}  # engines not yet reviewed by the lead

def main():
    m = {
        "version": 1,
        "setup_cmd": "bin/setup",
        "hooks": {
            "guard": "GTIRB_REWRITING_VERIF",
            "enable": "no source hooks: seams are installed at run time by rebinding module attributes (uuid4, Node.__hash__, engine functions); nothing in /repo reads the guard",
            "baseline_off_cmd": "cd /repo && env -u GTIRB_REWRITING_VERIF /venv/bin/python -m pytest -ra -q -p no:cacheprovider --timeout=900 --continue-on-collection-errors",
            "source_commits": [],
            "add_only": True,
        },
        "engines": [],
        "checks": [],
        "notes": "see DESIGN.md; known findings in known_findings.json; replay with bin/check --replay <file>",
        "not_applicable": list(NA),
    }
    engines = {}
    for pid in ALL:
        cfg = PROPS.get(pid)
        if cfg is not None and cfg["engine"] in PENDING_ENGINES:
            cfg = None
        if cfg is None:
            if pid not in ("C12", "C14"):
                m["not_applicable"].append({"property_id": pid, "reason": "check not built yet in this round (planned, see DESIGN.md section 11); not claimed"})
            continue
        eng = cfg["engine"]
        engines.setdefault(eng, []).append(pid)
        m["checks"].append({
            "property_id": pid,
            "quick_cmd": f"bin/check {pid} --tier quick",
            "thorough_cmd": f"bin/check {pid} --tier thorough",
            "evidence_file": f"evidence/{pid}.json",
            "replay_cmd_template": "bin/check --replay {path}",
            "engine": eng,
            "level_claimed": {
                "category": cfg["level"],
                "text": cfg.get("level_text") or ("seeded search over scenarios, schedules and faults (sampling, not proof): a clean batch is evidence that the property holds on the explored histories; every violation is minimised and replayable"),
                "design_ref": DESIGN_REF[eng],
            },
            "level_note": "; ".join(cfg.get("assumptions", [])) or "see DESIGN.md",
            "technique": TECH[eng],
        })
    paths = {"rwsim": "sim/rw", "ctsim": "sim/ctsim.py", "cfisim": "sim/cfisim.py", "asmsim": "sim/asmsim.py", "machsim": "sim/machsim.py"}
    for eng, pids in engines.items():
        m["engines"].append({"name": eng, "path": paths[eng], "serves_properties": pids, "kind_free_text": TECH[eng]})
    m["not_applicable"].sort(key=lambda x: x["property_id"])
    json.dump(m, open("/verif/MANIFEST.json", "w"), indent=1)
    print("checks:", [c["property_id"] for c in m["checks"]])

main()
