#!/venv/bin/python
"""Seeded breaking changes (written by independent sub-agents that saw only a
property's text): confirm them and run the checks against them.

  tools/seeded.py import /tmp/seed            copy <P>/out/<k>/ -> seeded/<P>-<k>/
  tools/seeded.py confirm [ids...]            patch applies; tests pass with it; demo OK before / BROKEN after
  tools/seeded.py run [ids...] [--props C01,C02] [--runs N] [--tier quick]
                                              apply to /repo, run the property's check(s), undo
  tools/seeded.py table                       markdown table of the recorded results

A change is applied with `git -C /repo apply` and always undone with
`git -C /repo checkout -- .`; while it is applied the checks write their
evidence and replays into a scratch directory, never into /verif/evidence.
"""

import argparse
import glob
import json
import os
import shutil
import subprocess
import sys
import tempfile
import time

ROOT = os.path.dirname(os.path.dirname(os.path.abspath(__file__)))
SEEDED = os.path.join(ROOT, "seeded")
PY = "/venv/bin/python"
TEST_CMD = [PY, "-m", "pytest", "-q", "-p", "no:cacheprovider", "--timeout=900", "--deselect", "tests/test_e2e.py", "-x"]


def ids_from(args_ids):
    if args_ids:
        return args_ids
    return sorted(os.path.basename(d) for d in glob.glob(os.path.join(SEEDED, "C*-*")))


def repo_clean():
    r = subprocess.run(["git", "-C", "/repo", "status", "--porcelain", "--untracked-files=no"], capture_output=True, text=True)
    return r.stdout.strip() == ""


class Applied:
    def __init__(self, sid):
        self.patch = os.path.join(SEEDED, sid, "patch.diff")

    def __enter__(self):
        if not repo_clean():
            raise SystemExit("/repo has uncommitted changes to tracked files; refusing to apply a seeded change")
        subprocess.run(["git", "-C", "/repo", "apply", self.patch], check=True)
        return self

    def __exit__(self, *a):
        subprocess.run(["git", "-C", "/repo", "checkout", "--", "."], check=True)


def cmd_import(src, offset=0):
    for d in sorted(glob.glob(os.path.join(src, "C*", "out", "*"))):
        prop = d.split(os.sep)[-3]
        k = os.path.basename(d)
        if offset and k.isdigit():
            k = str(int(k) + offset)
        if not os.path.exists(os.path.join(d, "patch.diff")):
            continue
        dst = os.path.join(SEEDED, f"{prop}-{k}")
        os.makedirs(dst, exist_ok=True)
        for f in ("patch.diff", "demo.py", "meta.json"):
            if os.path.exists(os.path.join(d, f)):
                shutil.copy(os.path.join(d, f), os.path.join(dst, f))
        print("imported", dst)


def run_demo(sid):
    r = subprocess.run([PY, os.path.join(SEEDED, sid, "demo.py")], capture_output=True, text=True, timeout=600, cwd="/tmp", env=dict(os.environ, PYTHONPATH="/repo/src", PYTHONDONTWRITEBYTECODE="1"))
    lines = [l for l in (r.stdout + r.stderr).splitlines() if l.strip()]
    return r.returncode, (lines[-1] if lines else "")[:400], next((l for l in lines if l.startswith("BROKEN")), "")[:600]


def cmd_confirm(ids):
    bad = 0
    for sid in ids:
        meta_p = os.path.join(SEEDED, sid, "meta.json")
        meta = json.load(open(meta_p))
        conf = {}
        chk = subprocess.run(["git", "-C", "/repo", "apply", "--check", os.path.join(SEEDED, sid, "patch.diff")], capture_output=True, text=True)
        conf["applies"] = chk.returncode == 0
        if not conf["applies"]:
            conf["error"] = chk.stderr[:300]
        else:
            rc, last, _ = run_demo(sid)
            conf["demo_clean_tree"] = {"exit": rc, "last": last}
            with Applied(sid):
                t = subprocess.run(TEST_CMD, cwd="/repo", capture_output=True, text=True, timeout=1800, env=dict(os.environ, PYTHONDONTWRITEBYTECODE="1"))
                tail = [l for l in t.stdout.splitlines() if l.strip()][-1]
                conf["tests_with_change"] = tail
                rc2, last2, broken = run_demo(sid)
                conf["demo_changed_tree"] = {"exit": rc2, "broken": broken or last2}
            conf["confirmed"] = rc == 0 and "OK" in last and rc2 == 1 and bool(broken) and "331 passed" in tail and "failed" not in tail
        meta["confirmation"] = conf
        json.dump(meta, open(meta_p, "w"), indent=1)
        print(sid, "CONFIRMED" if conf.get("confirmed") else "NOT CONFIRMED", json.dumps(conf)[:500], flush=True)
        if not conf.get("confirmed"):
            bad += 1
    return bad


def cmd_run(ids, props, runs, tier):
    for sid in ids:
        meta_p = os.path.join(SEEDED, sid, "meta.json")
        meta = json.load(open(meta_p))
        plist = props or [meta.get("property") or sid.split("-")[0]]
        scratch = tempfile.mkdtemp(prefix="verif-seeded-")
        results = meta.setdefault("checks", {})
        try:
            with Applied(sid):
                for p in plist:
                    env = dict(os.environ, VERIF_EVIDENCE_DIR=os.path.join(scratch, "evidence"), VERIF_OUT_DIR=os.path.join(scratch, "out"))
                    cmd = [os.path.join(ROOT, "bin", "check"), p, "--tier", tier] + (["--runs", str(runs)] if runs else [])
                    t0 = time.time()
                    r = subprocess.run(cmd, capture_output=True, text=True, timeout=7200, env=env)
                    lines = r.stdout.splitlines()
                    viol = [l for l in lines if l.startswith("VIOLATION property=")]
                    cls = [l.strip() for l in lines if l.strip().startswith("class=")]
                    wit = [l.strip() for l in lines if l.strip().startswith("witness=")]
                    caught = r.returncode == 1 and bool(viol)
                    results[p] = {
                        "tier": tier,
                        "runs": runs or "default",
                        "caught": caught,
                        "exit": r.returncode,
                        "wall_s": round(time.time() - t0, 1),
                        "classes": cls[:3],
                        "witness": [w[:300] for w in wit[:1]],
                        "summary": (lines[-1] if lines else "")[:300],
                    }
                    if r.returncode not in (0, 1):
                        results[p]["harness_tail"] = "\n".join(lines[-15:])[-1500:]
                    print(sid, p, "CAUGHT" if caught else f"missed (exit {r.returncode})", (cls[:1] or [""])[0][:160], flush=True)
        finally:
            shutil.rmtree(scratch, ignore_errors=True)
        json.dump(meta, open(meta_p, "w"), indent=1)


def cmd_table(ids):
    print("| id | property | change | files | caught by | missed by |")
    print("|---|---|---|---|---|---|")
    for sid in ids:
        meta = json.load(open(os.path.join(SEEDED, sid, "meta.json")))
        ch = meta.get("checks") or {}
        caught = ", ".join(f"{p} ({(v['classes'] or ['?'])[0].split(' sig=')[0].replace('class=', '')})" for p, v in sorted(ch.items()) if v.get("caught"))
        missed = ", ".join(p for p, v in sorted(ch.items()) if not v.get("caught"))
        print(f"| {sid} | {meta.get('property')} | {meta.get('summary', '')[:220]} | {', '.join(os.path.basename(f) for f in meta.get('files', []))} | {caught or '-'} | {missed or '-'} |")


def main():
    ap = argparse.ArgumentParser()
    ap.add_argument("cmd")
    ap.add_argument("ids", nargs="*")
    ap.add_argument("--props", default="")
    ap.add_argument("--runs", type=int, default=0)
    ap.add_argument("--tier", default="quick")
    ap.add_argument("--offset", type=int, default=0, help="import: add to the change number (second round of changes)")
    a = ap.parse_args()
    if a.cmd == "import":
        return cmd_import(a.ids[0], a.offset)
    ids = ids_from(a.ids)
    if a.cmd == "confirm":
        return 1 if cmd_confirm(ids) else 0
    if a.cmd == "run":
        return cmd_run(ids, [p for p in a.props.split(",") if p], a.runs, a.tier)
    if a.cmd == "table":
        return cmd_table(ids)
    raise SystemExit("unknown command")


if __name__ == "__main__":
    sys.exit(main())
