"""Check configuration of the cfisim engine (merged into sim/props.py by the lead)."""

PROPS = {
    "C15": {
        "engine": "cfisim",
        "level": "exploration",
        "quick_runs": 40000,
        "thorough_runs": 800000,
        "quick_wall": 240,
        "thorough_wall": 2400,
        "params": {"avoid_known": 0.8, "rel_offset_semantics": "dwarf"},
        "rule": "seeded scenarios: one ABI (x64 ELF 45%, ARM64 ELF 25%, MIPS32 ELF big-endian 20%, x64 PE 5%, IA32 PE 5%) with a real "
        "gtirb module, 1-6 code blocks (own byte intervals, creation order and hand-over order shuffled, sometimes a decoy block that "
        "is not handed over), a history of 1-4 CFI procedures over the full directive set of cfi_eval.py (escape payloads encoded "
        "with the library's own encoders) cut into directive locations at seeded points, 0-3 injected ill-formed events, and a "
        "consumer schedule (copy() at seeded yields, later mutation of copies, held references, abandon, second evaluation); every "
        "yield is compared field by field with the value-semantics reference interpreter sim/cfi_ref.py; distinct = digest of the "
        "scenario without sigma/seed; non-trivial = the reference applies at least 3 directives inside procedures",
        "interleaving_measure": "distinct per-run sequences of (directive kinds per location, yield/raise/end, copy/hold/mutate/abandon/reeval)",
        "real_vs_stub": "real: gtirb_rewriting.dwarf.cfi_eval (evaluate_cfi_directives, ProcedureState/RowState copy), dwarf.cfi / dwarf.expr "
        "decoders and encoders, abi.ABI (return column, pointer size, byte order), _auxdata_offsetmap, gtirb, gtirb_test_helpers; "
        "simulated: the consumer of the generator (copy/mutate/hold/abandon schedule), the directive history and its placement, "
        "fault plan, UUID source, node hashing; oracle: sim/cfi_ref.py (own DW_CFA/DW_OP decoder, own ABI table taken from "
        "llvm-mc CIE output)",
        "assumptions": [
            "the initial (CIE) row of a procedure is the row after all directives at the location of its .cfi_startproc: documented "
            "choice of the library (comment in cfi_eval.py, 'matches LLDB'), adopted by the reference",
            ".cfi_remember_state/.cfi_restore_state save and restore the whole row including the CFA rule (libgcc/LLVM behaviour; DWARF v4 "
            "only says 'the set of rules for every register')",
            ".cfi_rel_offset r, N is read as the assemblers lower it (GNU as and llvm-mc both emit DW_CFA_offset(r, N - current CFA "
            "offset)); params.rel_offset_semantics='library' switches the reference to the library's reading (old offset rule + N, "
            "error without an offset rule)",
            "default return-address columns are the ones llvm-mc writes into the CIE for the triple the library assembles with "
            "(x86-64: 16, aarch64: 30, mips: 31); MIPS32 escape payloads are big-endian (the library assembles MIPS32 with the "
            "big-endian triple 'mips')",
            "PE ABIs (x64 PE, IA32 PE) have no default_dwarf_eh_return_column in the library (base class raises NotImplementedError): "
            "NotImplementedError at the first well-formed .cfi_startproc is accepted as a documented refusal, anything else is not",
            "escaped DW_CFA instructions other than nop/def_cfa_expression/expression/val_expression, unknown directives, wrong operand "
            "counts and invalid pointer-encoding bytes are not generated (documented NotImplementedError / outside the property's list "
            "of ill-formed events); truncated escape payloads only with params.fault_bad_escape",
            "either CFIStateError or ValueError is accepted for every ill-formed event; the error must surface at the directive "
            "location where the reference says the history becomes ill-formed (granularity: one location = one next())",
            "an exception of an allowed type where the reference sees no error is reported in class wrong-exception-type with "
            "sig expected=no-error (DESIGN 9b has no separate class for it)",
            "cause tags in signatures (rel-offset-semantics, escape-byteorder, abi-default-return-column, no-initial-rule) are found by "
            "re-running against a reference variant; they only name a violation, they never suppress one",
        ],
    }
}
