"""Self-tests of the simulator itself.

  bin/check selftest [--seeds N] [--props C01,C15,...]      determinism
  bin/check selftest --mutants [--props ...] [--limit K]    sensitivity

Determinism (per property, N seeds):
  A  run every seed in a 16-worker pool                       -> digest A
  B  run every seed again in a fresh 4-worker pool            -> digest B  (must equal A)
  C  replay the scenario recorded by A in pool B              -> digest C  (must equal A: replay is a
                                                                 pure function of scenario and code)
  D  replay it in a worker of ANOTHER PYTHONHASHSEED class    -> digest D  (must equal A for the engines
     whose code under test is hash-order free; for rwsim a difference is exactly what C11 examines and
     is only counted)
Sensitivity: every /verif/mutants/<PROP>-*.diff is applied to a scratch copy of
/repo/src (outside /repo and /verif, removed afterwards) and the property's
check is run against it through VERIF_REPO; a mutant counts as caught when the
check exits 1 with a VIOLATION line.
"""

import argparse
import glob
import json
import os
import shutil
import subprocess
import sys
import tempfile
import time

from . import core, runner
from .props import PROPS

HASH_FREE = {"ctsim", "cfisim", "machsim", "asmsim"}


def _dig(answer):
    r = dict(answer["result"])
    r.pop("trace", None)
    return core.digest(r)


def _outcome(answer):
    r = answer["result"]
    return core.digest({k: r.get(k) for k in ("verdict", "vclass", "sig")})


def determinism(props, nseeds):
    report = {}
    bad = 0
    for prop in props:
        cfg = PROPS[prop]
        eng = cfg["engine"]
        params = dict(cfg.get("params") or {})
        params.update(cfg.get("quick_params") or {})
        tasks = []
        for i in range(nseeds):
            s = core.derive(777, "selftest", prop, i)
            tasks.append({"id": i, "op": "run", "engine": eng, "prop": prop, "seed": s, "params": params, "hashseed": core.hashseed_of(s), "want_scenario": True})
        t0 = time.time()
        with runner.Pool(nworkers=16) as pa:
            A = pa.map([dict(t) for t in tasks])
        with runner.Pool(nworkers=4) as pb:
            B = pb.map([dict(t) for t in tasks])
            rep = [{"id": i, "op": "replay", "engine": eng, "prop": prop, "scenario": A[i]["scenario"], "params": params, "hashseed": tasks[i]["hashseed"]} for i in range(nseeds) if A[i].get("scenario") is not None]
            C = pb.map([dict(t) for t in rep])
            other = [dict(t, hashseed=(t["hashseed"] + 1) % core.HASHSEED_CLASSES) for t in rep]
            D = pb.map(other)
        ab = [i for i in range(nseeds) if _dig(A[i]) != _dig(B[i]) or core.digest(A[i].get("scenario")) != core.digest(B[i].get("scenario"))]
        ac = [t["id"] for t in rep if _dig(A[t["id"]]) != _dig(C[t["id"]])]
        # (under another hash seed only the outcome has to agree: which
        # element set.pop() hands out, and with it the probe counters, is
        # legitimately hash-order dependent)
        ad = [t["id"] for t in rep if _outcome(A[t["id"]]) != _outcome(D[t["id"]])]
        harness = [i for i in range(nseeds) if A[i]["result"].get("verdict") == core.Verdict.HARNESS]
        ok = not ab and not ac and not harness and (eng not in HASH_FREE or not ad)
        # rwsim under another hash seed: differences must be confined to runs
        # that are violations of a known layout-order finding or to desync
        report[prop] = {
            "engine": eng,
            "seeds": nseeds,
            "run_vs_rerun_diff": ab,
            "run_vs_replay_diff": ac,
            "other_hashseed_diff": len(ad),
            "other_hashseed_must_match": eng in HASH_FREE,
            "harness": harness,
            "ok": ok,
            "wall_s": round(time.time() - t0, 1),
        }
        print(f"selftest determinism {prop}: seeds={nseeds} rerun_diff={len(ab)} replay_diff={len(ac)} other_hashseed_diff={len(ad)}{'' if eng in HASH_FREE else ' (informational)'} harness={len(harness)} -> {'ok' if ok else 'FAILED'}", flush=True)
        if not ok:
            bad += 1
    return report, bad


def sensitivity(props, limit, runs):
    report = {}
    missed = 0
    for prop in props:
        diffs = sorted(glob.glob(os.path.join(core.VERIF_ROOT, "mutants", f"{prop}-*.diff")))
        if limit:
            diffs = diffs[:limit]
        for d in diffs:
            name = os.path.basename(d)[:-5]
            scratch = tempfile.mkdtemp(prefix="verif-mut-")
            try:
                shutil.copytree("/repo/src", os.path.join(scratch, "src"))
                ap = subprocess.run(["patch", "-p1", "-s", "-f", "-i", d], cwd=scratch, capture_output=True, text=True)
                if ap.returncode != 0:
                    report[name] = {"status": "does-not-apply"}
                    print(f"selftest mutant {name}: does not apply (library changed since it was written)", flush=True)
                    continue
                env = dict(os.environ, VERIF_REPO=scratch, VERIF_EVIDENCE_DIR=os.path.join(scratch, "evidence"), VERIF_OUT_DIR=os.path.join(scratch, "out"))
                cmd = [os.path.join(core.VERIF_ROOT, "bin", "check"), prop, "--tier", "quick"] + (["--runs", str(runs)] if runs else [])
                t0 = time.time()
                r = subprocess.run(cmd, env=env, capture_output=True, text=True, timeout=1800)
                caught = r.returncode == 1 and "VIOLATION property=" + prop in r.stdout
                first = next((l for l in r.stdout.splitlines() if l.strip().startswith("class=")), "")
                report[name] = {"status": "caught" if caught else "missed", "exit": r.returncode, "wall_s": round(time.time() - t0, 1), "first": first.strip()[:200]}
                print(f"selftest mutant {name}: {'caught' if caught else 'MISSED'} (exit {r.returncode}) {first.strip()[:120]}", flush=True)
                if not caught:
                    missed += 1
            finally:
                shutil.rmtree(scratch, ignore_errors=True)
    return report, missed


def main(argv=None):
    ap = argparse.ArgumentParser(prog="bin/check selftest")
    ap.add_argument("--seeds", type=int, default=200)
    ap.add_argument("--props", default="")
    ap.add_argument("--mutants", action="store_true")
    ap.add_argument("--limit", type=int, default=0)
    ap.add_argument("--runs", type=int, default=0)
    args = ap.parse_args(argv)
    props = [p for p in args.props.split(",") if p] or sorted(PROPS)
    os.makedirs(core.OUT_DIR, exist_ok=True)
    if args.mutants:
        rep, bad = sensitivity(props, args.limit, args.runs)
        out = os.path.join(core.OUT_DIR, "selftest-mutants.json")
    else:
        rep, bad = determinism(props, args.seeds)
        out = os.path.join(core.OUT_DIR, "selftest-determinism.json")
    with open(out, "w") as f:
        json.dump(rep, f, indent=1)
    print(f"selftest: report in {out}; {'all ok' if not bad else str(bad) + ' problem(s)'}")
    return 0 if not bad else 1
