"""Helper interpreters under another PYTHONHASHSEED, owned by a worker
(used by C11: the hash seed is part of the schedule and is fixed at
interpreter start)."""

import json
import os
import subprocess

from . import core

_children = {}


def call(hashseed, task):
    ch = _children.get(hashseed)
    if ch is None or ch.poll() is not None:
        env = dict(os.environ)
        env["PYTHONHASHSEED"] = str(hashseed)
        env.setdefault("PYTHONDONTWRITEBYTECODE", "1")
        ch = subprocess.Popen(
            [core.PYTHON, "-X", "faulthandler", os.path.join(core.VERIF_ROOT, "sim", "worker.py")],
            stdin=subprocess.PIPE,
            stdout=subprocess.PIPE,
            stderr=subprocess.DEVNULL,
            env=env,
            text=True,
            bufsize=1,
            cwd=core.VERIF_ROOT,
        )
        _children[hashseed] = ch
    task = dict(task)
    task["id"] = 0
    ch.stdin.write(json.dumps(task, default=str) + "\n")
    ch.stdin.flush()
    line = ch.stdout.readline()
    if not line:
        raise core.HarnessError(f"helper interpreter (PYTHONHASHSEED={hashseed}) died")
    ans = json.loads(line)
    if ans["result"].get("verdict") == core.Verdict.HARNESS:
        raise core.HarnessError("helper: " + str(ans["result"].get("error")) + "\n" + str(ans["result"].get("trace")))
    return ans["result"]


def my_hashseed():
    return int(os.environ.get("PYTHONHASHSEED", "0") or 0)


def call_fresh(hashseed, tasks):
    """Run the tasks one after the other in a NEW interpreter that is thrown
    away afterwards (C11: the same rewrite repeated in one process; nothing
    an earlier run left behind in the worker can interfere)."""
    env = dict(os.environ)
    env["PYTHONHASHSEED"] = str(hashseed)
    env.setdefault("PYTHONDONTWRITEBYTECODE", "1")
    ch = subprocess.Popen(
        [core.PYTHON, "-X", "faulthandler", os.path.join(core.VERIF_ROOT, "sim", "worker.py")],
        stdin=subprocess.PIPE,
        stdout=subprocess.PIPE,
        stderr=subprocess.DEVNULL,
        env=env,
        text=True,
        bufsize=1,
        cwd=core.VERIF_ROOT,
    )
    out = []
    try:
        for i, task in enumerate(tasks):
            task = dict(task)
            task["id"] = i
            ch.stdin.write(json.dumps(task, default=str) + "\n")
            ch.stdin.flush()
            line = ch.stdout.readline()
            if not line:
                raise core.HarnessError("fresh helper interpreter died")
            ans = json.loads(line)
            if ans["result"].get("verdict") == core.Verdict.HARNESS:
                raise core.HarnessError("fresh helper: " + str(ans["result"].get("error")) + "\n" + str(ans["result"].get("trace")))
            out.append(ans["result"])
    finally:
        try:
            ch.stdin.write('{"op":"quit"}\n')
            ch.stdin.flush()
            ch.stdin.close()
            ch.wait(timeout=5)
        except Exception:
            ch.kill()
    return out
