"""Reference interpreter for CFI directive histories (oracle of C15, reused
by C08).  Written from DWARF v4 section 6.4 (call frame information), 7.7.1
(expression encoding) and the assembler-level meaning of the `.cfi_*`
directives; VALUE semantics only: a state is a tuple of immutable values and
every register table is a fresh dict, nothing is ever mutated in place, so
there is no aliasing to get wrong.  It shares no code with
gtirb_rewriting.dwarf.cfi_eval.

Plain-data interface
--------------------
event      = [block_index, offset, directive, [int operands], sym]
             sym: None (null UUID) | "name" (existing symbol) | {"dangling": n}
groups     = group_history(blocks, history, passed) ->
             [([block_index, offset], [event, ...])] in address order
interpret(groups, abi, opts) -> list of steps, one per directive location:
    {"loc": [b, off], "state": canonical state | None, "proc": ordinal}
  the last step may instead be terminal:
    {"loc": ..., "error": {"kind", "directive", "index", "classes"}}
    {"loc": ..., "unspecified": why}       (DWARF gives the input no meaning)

canonical state (all JSON): {"return_column", "personality", "lsda", "cfa",
  "registers", "initial_cfa", "initial_registers", "save_stack"} with
  cfa = None | ["reg", r, off] | ["expr", ops]; rule = ["undefined"] |
  ["same_value"] | ["offset", n] | ["val_offset", n] | ["register", r] |
  ["expression", ops] | ["val_expression", ops]; ops = [[name, operand...]].
"""

import collections

ILL_FORMED = ["CFIStateError", "ValueError"]
OMIT = 0xFF

# Default return-address column = what the assembler writes into the CIE
# (llvm-mc -triple=<t> ; llvm-dwarfdump --eh-frame: "Return address column").
# eh=False: the library documents no DWARF EH return column for the ABI
# (ABI.default_dwarf_eh_return_column raises NotImplementedError): refusal.
ABIS = {
    "x64-elf": {"isa": "X64", "fmt": "ELF", "ptr": 8, "order": "little", "ra": 16, "eh": True},
    "arm64-elf": {"isa": "ARM64", "fmt": "ELF", "ptr": 8, "order": "little", "ra": 30, "eh": True},
    "mips32-elf": {"isa": "MIPS32", "fmt": "ELF", "ptr": 4, "order": "big", "ra": 31, "eh": True},
    "x64-pe": {"isa": "X64", "fmt": "PE", "ptr": 8, "order": "little", "ra": 16, "eh": False},
    "ia32-pe": {"isa": "IA32", "fmt": "PE", "ptr": 4, "order": "little", "ra": 8, "eh": False},
}

State = collections.namedtuple(
    "State", "ra personality lsda cfa regs init_cfa init_regs stack proc ndir"
)


class Malformed(Exception):
    pass


# ---------------------------------------------------------------- decoding
def _take(b, i, n):
    if i + n > len(b):
        raise Malformed("truncated")
    return b[i : i + n], i + n


def _uleb(b, i):
    v = s = 0
    while True:
        (c,), i = _take(b, i, 1)
        v |= (c & 0x7F) << s
        s += 7
        if not c & 0x80:
            return v, i


def _sleb(b, i):
    v = s = 0
    while True:
        (c,), i = _take(b, i, 1)
        v |= (c & 0x7F) << s
        s += 7
        if not c & 0x80:
            return (v - (1 << s) if c & 0x40 else v), i


def _fixed(n, signed):
    def f(b, i, order, ptr):
        raw, i = _take(b, i, n or ptr)
        return int.from_bytes(bytes(raw), order, signed=signed), i

    return f


def _leb(signed):
    return lambda b, i, order, ptr: (_sleb if signed else _uleb)(b, i)


_U1, _S1, _U2, _S2, _U4, _S4, _U8, _S8 = (_fixed(n, s) for n in (1, 2, 4, 8) for s in (False, True))
_OPS = {  # DWARF v4 figure 24
    0x03: ("addr", _fixed(0, False)), 0x06: ("deref",), 0x08: ("const1u", _U1), 0x09: ("const1s", _S1),
    0x0A: ("const2u", _U2), 0x0B: ("const2s", _S2), 0x0C: ("const4u", _U4), 0x0D: ("const4s", _S4),
    0x0E: ("const8u", _U8), 0x0F: ("const8s", _S8), 0x10: ("constu", _leb(0)), 0x11: ("consts", _leb(1)),
    0x12: ("dup",), 0x13: ("drop",), 0x14: ("over",), 0x15: ("pick", _U1), 0x16: ("swap",), 0x17: ("rot",),
    0x18: ("xderef",), 0x19: ("abs",), 0x1A: ("and",), 0x1B: ("div",), 0x1C: ("minus",), 0x1D: ("mod",),
    0x1E: ("mul",), 0x1F: ("neg",), 0x20: ("not",), 0x21: ("or",), 0x22: ("plus",),
    0x23: ("plus_uconst", _leb(0)), 0x24: ("shl",), 0x25: ("shr",), 0x26: ("shra",), 0x27: ("xor",),
    0x28: ("bra", _S2), 0x29: ("eq",), 0x2A: ("ge",), 0x2B: ("gt",), 0x2C: ("le",), 0x2D: ("lt",),
    0x2E: ("ne",), 0x2F: ("skip", _S2), 0x90: ("regx", _leb(0)), 0x91: ("fbreg", _leb(1)),
    0x92: ("bregx", _leb(0), _leb(1)), 0x93: ("piece", _leb(0)), 0x94: ("deref_size", _U1),
    0x95: ("xderef_size", _U1), 0x96: ("nop",),
}  # fmt: skip


def _uleb_enc(v):
    if v < 0:
        raise ValueError("ULEB128 of a negative number")
    out = []
    while True:
        c = v & 0x7F
        v >>= 7
        out.append(c | (0x80 if v else 0))
        if not v:
            return out


def _sleb_enc(v):
    out = []
    while True:
        c = v & 0x7F
        v >>= 7
        done = (v == 0 and not c & 0x40) or (v == -1 and c & 0x40)
        out.append(c | (0 if done else 0x80))
        if done:
            return out


# operand formats of the table above, for the encoder: (width or "uleb"/"sleb"/"addr", signed)
_OPERANDS = {
    "addr": [("addr", False)], "const1u": [(1, False)], "const1s": [(1, True)], "const2u": [(2, False)], "const2s": [(2, True)],
    "const4u": [(4, False)], "const4s": [(4, True)], "const8u": [(8, False)], "const8s": [(8, True)], "constu": [("uleb", False)],
    "consts": [("sleb", True)], "pick": [(1, False)], "plus_uconst": [("uleb", False)], "bra": [(2, True)], "skip": [(2, True)],
    "regx": [("uleb", False)], "fbreg": [("sleb", True)], "bregx": [("uleb", False), ("sleb", True)], "piece": [("uleb", False)],
    "deref_size": [(1, False)], "xderef_size": [(1, False)],
}  # fmt: skip
_OPCODE = {v[0]: k for k, v in _OPS.items()}


def encode_expr(ops, order, ptr):
    """Independent encoder for the operation lists decode_expr produces
    (["breg", n, off], ["lit", n], ["reg", n], [name, operands...])."""
    out = []
    for op in ops:
        name = op[0]
        if name == "lit":
            out.append(0x30 + op[1])
        elif name == "reg":
            out.append(0x50 + op[1])
        elif name == "breg":
            out.append(0x70 + op[1])
            out += _sleb_enc(op[2])
        else:
            out.append(_OPCODE[name])
            for (w, signed), v in zip(_OPERANDS.get(name, []), op[1:]):
                if w == "uleb":
                    out += _uleb_enc(v)
                elif w == "sleb":
                    out += _sleb_enc(v)
                else:
                    n = ptr if w == "addr" else w
                    out += list(int(v).to_bytes(n, order, signed=signed))
    return out


def decode_expr(b, order, ptr, spans=None):
    """``spans`` (optional list) receives the (start, end) byte span of every operation."""
    ops, i = [], 0
    while i < len(b):
        start, c = i, b[i]
        i += 1
        if 0x30 <= c <= 0x4F:
            ops.append(["lit", c - 0x30])
        elif 0x50 <= c <= 0x6F:
            ops.append(["reg", c - 0x50])
        elif 0x70 <= c <= 0x8F:
            off, i = _sleb(b, i)
            ops.append(["breg", c - 0x70, off])
        elif c in _OPS:
            op = [_OPS[c][0]]
            for rd in _OPS[c][1:]:
                v, i = rd(b, i, order, ptr)
                op.append(v)
            ops.append(op)
        else:
            raise Malformed(f"unknown DW_OP 0x{c:02x}")
        if spans is not None:
            spans.append((start, i))
    return ops


def decode_escape(b, order, ptr, spans=None):
    """CFA instructions in an escape payload (DWARF v4 6.4.2, figure 40).
    ``spans`` (optional list) receives per instruction (start, end,
    position of the expression length or None, start of the expression)."""
    out, i = [], 0

    def block(i):
        n, j = _uleb(b, i)
        raw, e = _take(b, j, n)
        return decode_expr(list(raw), order, ptr), e, (i, j)

    while i < len(b):
        start, c, where = i, b[i], (None, None)
        i += 1
        if c == 0x00:
            out.append(("nop",))
        elif c == 0x0F:
            e, i, where = block(i)
            out.append(("def_cfa_expression", e))
        elif c in (0x10, 0x16):
            r, i = _uleb(b, i)
            e, i, where = block(i)
            out.append(("expression" if c == 0x10 else "val_expression", r, e))
        else:  # has an assembly directive of its own; the library documents it does not evaluate these
            out.append(("other", c))
            break
        if spans is not None:
            spans.append((start, i) + where)
    return out


# ------------------------------------------------------------- interpreter
class Machine:
    """One evaluation.  ``step(event)`` returns None, ("error", kind) or
    ("unspecified", why); on a non-None result the machine is unchanged."""

    def __init__(self, abi, opts=None):
        o = dict(opts or {})
        self.abi = abi
        self.rel = o.get("rel_offset", "dwarf")  # "dwarf": N is relative to the CFA register | "library"
        self.order = o.get("order") or abi["order"]
        self.ra = o.get("ra", abi["ra"])
        self.eh = abi["eh"]
        self.s = None  # None = outside any procedure
        self.nproc = 0
        self.started = False
        self.inproc = 0  # directives applied inside procedures so far (startproc/endproc not counted)

    def step(self, ev):
        name, a, sym = ev[2], ev[3], ev[4]
        s = self.s
        if name == ".cfi_startproc":
            if s is not None:
                return ("error", "nested-startproc")
            if not self.eh:
                return ("error", "abi-refusal")
            self.nproc += 1
            self.s = State(self.ra, None, None, None, {}, None, {}, (), self.nproc, 0)
            self.started = True
            return None
        if s is None:
            return ("error", "outside-procedure")
        s = s._replace(ndir=s.ndir + 1)
        if name == ".cfi_endproc":
            self.s = None
            return None
        regcfa = s.cfa is not None and s.cfa[0] == "reg"
        setreg = lambda r, rule: s._replace(regs={**s.regs, r: rule})  # noqa: E731
        if name in (".cfi_personality", ".cfi_lsda"):
            if a[0] == OMIT:
                val = None
            elif not isinstance(sym, str):
                return ("error", "missing-symbol")
            else:
                val = (a[0], sym)
            s = s._replace(**{name[5:]: val})
        elif name == ".cfi_return_column":
            s = s._replace(ra=a[0])
        elif name == ".cfi_def_cfa":
            s = s._replace(cfa=("reg", a[0], a[1]))
        elif name in (".cfi_def_cfa_register", ".cfi_def_cfa_offset", ".cfi_adjust_cfa_offset"):
            if not regcfa:
                return ("error", "cfa-not-register-offset")
            _, r, off = s.cfa
            if name == ".cfi_def_cfa_register":
                s = s._replace(cfa=("reg", a[0], off))
            elif name == ".cfi_def_cfa_offset":
                s = s._replace(cfa=("reg", r, a[0]))
            else:  # gas: same as .cfi_def_cfa_offset with old offset + N
                s = s._replace(cfa=("reg", r, off + a[0]))
        elif name == ".cfi_undefined":
            s = setreg(a[0], ("undefined",))
        elif name == ".cfi_same_value":
            s = setreg(a[0], ("same_value",))
        elif name == ".cfi_register":
            s = setreg(a[0], ("register", a[1]))
        elif name == ".cfi_offset":
            s = setreg(a[0], ("offset", a[1]))
        elif name == ".cfi_val_offset":
            s = setreg(a[0], ("val_offset", a[1]))
        elif name == ".cfi_rel_offset":
            if self.rel == "dwarf":
                # gas/LLVM lower it to DW_CFA_offset(reg, N - current CFA offset): N counts from the CFA register
                if not regcfa:
                    return ("unspecified", "rel_offset without a register+offset CFA")
                s = setreg(a[0], ("offset", a[1] - s.cfa[2]))
            else:
                cur = s.regs.get(a[0])
                if cur is None or cur[0] != "offset":
                    return ("error", "rel-offset-no-offset-rule")
                s = setreg(a[0], ("offset", cur[1] + a[1]))
        elif name == ".cfi_restore":
            regs = {k: v for k, v in s.regs.items() if k != a[0]}
            if a[0] in s.init_regs:
                regs[a[0]] = s.init_regs[a[0]]
            s = s._replace(regs=regs)
        elif name == ".cfi_remember_state":
            s = s._replace(stack=s.stack + ((s.cfa, tuple(sorted(s.regs.items()))),))
        elif name == ".cfi_restore_state":
            if not s.stack:
                return ("error", "restore-state-empty-stack")
            cfa, regs = s.stack[-1]
            s = s._replace(cfa=cfa, regs=dict(regs), stack=s.stack[:-1])
        elif name == ".cfi_escape":
            try:
                insts = decode_escape(list(a), self.order, self.abi["ptr"])
            except Malformed:
                return ("error", "malformed-escape")
            for inst in insts:
                if inst[0] == "def_cfa_expression":
                    s = s._replace(cfa=("expr", _freeze(inst[1])))
                elif inst[0] in ("expression", "val_expression"):
                    s = s._replace(regs={**s.regs, inst[1]: (inst[0], _freeze(inst[2]))})
                elif inst[0] == "other":
                    return ("unspecified", f"escaped DW_CFA 0x{inst[1]:02x} is outside the documented subset")
        else:
            return ("unspecified", f"directive {name} is outside the supported set")
        self.s = s
        self.inproc += 1
        return None

    def end_group(self):
        # documented choice of the library (comment in cfi_eval.py, "matches LLDB"): everything at the
        # location of the .cfi_startproc is the CIE's initial_instructions
        if self.started and self.s is not None:
            self.s = self.s._replace(init_cfa=self.s.cfa, init_regs=dict(self.s.regs))
        self.started = False

    def snapshot(self):
        s = self.s
        if s is None:
            return None
        return {
            "return_column": s.ra,
            "personality": _thaw(s.personality),
            "lsda": _thaw(s.lsda),
            "cfa": _thaw(s.cfa),
            "registers": _regs(s.regs),
            "initial_cfa": _thaw(s.init_cfa),
            "initial_registers": _regs(s.init_regs),
            "save_stack": [{"cfa": _thaw(c), "registers": _regs(dict(r))} for c, r in s.stack],
        }


def _freeze(x):
    return tuple(_freeze(i) for i in x) if isinstance(x, (list, tuple)) else x


def _thaw(x):
    return [_thaw(i) for i in x] if isinstance(x, (list, tuple)) else x


def _regs(regs):
    return {str(k): _thaw(regs[k]) for k in sorted(regs)}


def group_history(blocks, history, passed=None):
    """Directive locations in address order; list order inside a location is
    history order.  ``blocks`` = [{"addr", "size"}], ``passed`` = indices of
    the blocks handed to the evaluator (default all)."""
    use = set(range(len(blocks)) if passed is None else passed)
    locs = {}
    for ev in history:
        if ev[0] in use:
            locs.setdefault((blocks[ev[0]]["addr"], ev[0], ev[1]), []).append(ev)
    return [([k[1], k[2]], [e for e in locs[k] if e[2] is not None]) for k in sorted(locs)]


def history_from_table(data, blocks):
    """Plain-data view (blocks, history) of a cfiDirectives table (mapping
    Offset -> [(name, operands, Symbol | UUID)]) restricted to ``blocks``
    (objects with .address and .size).  Duck-typed: imports nothing."""
    index = {id(b): i for i, b in enumerate(blocks)}
    hist = []
    for off, lst in data.items():
        bi = index.get(id(off.element_id))
        if bi is None:
            continue
        if not lst:
            hist.append([bi, off.displacement, None, [], None])
        for name, ops, sym in lst:
            nm = getattr(sym, "name", None)
            ref = nm if isinstance(nm, str) else (None if getattr(sym, "int", 1) == 0 else {"dangling": getattr(sym, "int", -1)})
            hist.append([bi, off.displacement, name, list(ops), ref])
    return [{"addr": b.address, "size": b.size} for b in blocks], hist


ERROR_CLASSES = {"abi-refusal": ["NotImplementedError"]}


def interpret(groups, abi, opts=None):
    m = Machine(abi, opts)
    steps = []
    for loc, events in groups:
        for i, ev in enumerate(events):
            r = m.step(ev)
            if r is not None and r[0] == "error":
                err = {"kind": r[1], "directive": ev[2], "index": i, "classes": ERROR_CLASSES.get(r[1], ILL_FORMED)}
                return steps + [{"loc": list(loc), "error": err}]
            if r is not None:
                return steps + [{"loc": list(loc), "unspecified": r[1], "directive": ev[2]}]
        m.end_group()
        steps.append({"loc": list(loc), "state": m.snapshot(), "proc": m.s.proc if m.s else 0, "inproc": m.inproc})
    return steps
