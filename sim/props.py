"""Per-property check configuration."""

RW_REAL = (
    "real: gtirb_rewriting (rewriting, _modify, assembler, abi, prepare, intervalutils), mcasm/LLVM MC, gtirb, "
    "gtirb_layout, gtirb_functions, gtirb_capstone, protobuf; simulated: user passes/patches (workload), UUID source, "
    "node hashing, PYTHONHASHSEED; oracle: listing model + capstone"
)

PROPS = {
    "C01": {
        "engine": "rwsim",
        "level": "exploration",
        "quick_runs": 3000,
        "thorough_runs": 60000,
        "quick_wall": 240,
        "thorough_wall": 2400,
        "rule": "seeded scenarios (random module + 1-3 sessions of insert/replace/delete requests) executed against the real "
        "library and the listing model; distinct = distinct (module, sessions) digest; non-trivial = at least one "
        "modification was registered",
        "real_vs_stub": RW_REAL,
        "assumptions": [
            "patch bytes are taken from the library's assembler output captured at _invoke_patch (C01 speaks of 'each patch's assembled bytes'); original bytes are encoded independently",
            "block spans between sessions and final addresses are imported from the implementation",
        ],
    },
    "C02": {
        "engine": "rwsim",
        "level": "exploration",
        "quick_runs": 3000,
        "thorough_runs": 60000,
        "quick_wall": 240,
        "thorough_wall": 2400,
        "params": {"end_label_p": 0.45, "delblock_p": 0.3},
        "rule": "seeded scenarios biased to several start/at_end labels per block and whole-block deletions; distinct = "
        "distinct (module, sessions) digest; non-trivial = at least one modification was registered",
        "real_vs_stub": RW_REAL,
        "assumptions": ["label sides (start / at_end) are imported from the implementation at the start of each session; positions are not"],
    },
}
