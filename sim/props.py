"""Per-property check configuration."""

RW_REAL = (
    "real: gtirb_rewriting (rewriting, _modify, assembler, abi, prepare, intervalutils), mcasm/LLVM MC, gtirb, "
    "gtirb_layout, gtirb_functions, gtirb_capstone, protobuf; simulated: user passes/patches (workload), UUID source, "
    "node hashing, PYTHONHASHSEED; oracle: listing model + capstone"
)

PROPS = {
    "C01": {
        "engine": "rwsim",
        "level": "exploration",
        "quick_runs": 20000,
        "thorough_runs": 300000,
        "quick_wall": 240,
        "thorough_wall": 2400,
        # (a share of sessions mixes scope registrations with insert_at at
        # the same place: registration order across the two kinds of request)
        "params": {"syscall_p": 0.05, "other_sect_p": 0.06, "isa_weights": [75, 15, 10], "scope_session_p": 0.12, "constraints_p": 0.1, "extern_p": 0.08, "align_fill_p": 0.5, "scope_insfn_p": 0.15, "decline_p": 0.06},
        "rule": "seeded scenarios (random module + 1-3 sessions of insert/replace/delete requests) executed against the real "
        "library and the listing model; modules also carry syscall-terminated blocks, several aligned blocks per byte interval, "
        "get_or_insert_extern_symbol requests; distinct = distinct (module, sessions) digest; non-trivial = at least one "
        "modification was registered",
        "real_vs_stub": RW_REAL,
        "assumptions": [
            "patch bytes are taken from the library's assembler output captured at _invoke_patch (C01 speaks of 'each patch's assembled bytes'); original bytes are encoded independently",
            "block spans between sessions and final addresses are imported from the implementation",
        ],
    },
    "C02": {
        "engine": "rwsim",
        "level": "exploration",
        "quick_runs": 20000,
        "thorough_runs": 300000,
        "quick_wall": 240,
        "thorough_wall": 2400,
        "params": {"syscall_p": 0.05, "zero_hist_p": 0.06, "other_sect_p": 0.06, "isa_weights": [75, 15, 10], "end_label_p": 0.45, "delblock_p": 0.3, "constraints_p": 0.1, "extern_p": 0.08},
        "rule": "seeded scenarios biased to several start/at_end labels per block and whole-block deletions; distinct = "
        "distinct (module, sessions) digest; non-trivial = at least one modification was registered",
        "real_vs_stub": RW_REAL,
        "assumptions": ["label sides (start / at_end) are imported from the implementation at the start of each session; positions are not"],
    },
}

PROPS["C03"] = {
    "engine": "rwsim",
    "level": "exploration",
    "quick_runs": 20000,
    "thorough_runs": 300000,
    "quick_wall": 240,
    "thorough_wall": 2400,
    "params": {"syscall_p": 0.05, "zero_hist_p": 0.06, "isa_weights": [75, 15, 10], "constraints_p": 0.1, "extern_p": 0.1},
    "rule": "seeded scenarios (random module with per-instruction-consistent CFG + 1-3 sessions of edits with patches made of "
    "plain/jmp/jcc/call/ret/indirect instructions and labels); distinct = distinct (module, sessions) digest; "
    "non-trivial = at least one modification was registered",
    "real_vs_stub": RW_REAL,
    "assumptions": [
        "instruction kinds of patch code are read with capstone from the assembled bytes, branch targets from the patch's symbolic expressions",
        "code never runs off the end of code into data or the end of a section (generator precondition)",
    ],
}

PROPS["C04"] = {
    "engine": "rwsim",
    "level": "exploration",
    "quick_runs": 15000,
    "thorough_runs": 225000,
    "quick_wall": 240,
    "thorough_wall": 2400,
    "params": {"other_sect_p": 0.06, "isa_weights": [75, 15, 10], "annot_p": 0.4, "constraints_p": 0.1},
    "rule": "seeded scenarios with symbolic expressions in code and data and block-/interval-keyed comments and padding entries "
    "(on first, last and inner bytes of instructions), edited before, inside and after the annotated positions; distinct = "
    "(module, sessions) digest; non-trivial = at least one modification registered",
    "real_vs_stub": RW_REAL,
    "assumptions": ["expressions created by a patch are read from the assembler result captured at _invoke_patch; CFI directive keys are only checked for liveness and range here (their meaning is C08's)"],
}

PROPS["C05"] = {
    "engine": "rwsim",
    "level": "fault_enumeration",
    "quick_runs": 5000,
    "thorough_runs": 75000,
    "quick_wall": 240,
    "thorough_wall": 2400,
    "params": {"syscall_p": 0.05, "allow_target_on_data": True, "zero_hist_p": 0.06, "other_sect_p": 0.06, "isa_weights": [75, 15, 10], "annot_p": 0.2, "allow_fall_off": True, "delblock_p": 0.25, "extern_p": 0.1, "patch_align_p": 0.1},
    "rule": "seeded scenarios as for C01; after every session the whole-IR validator (blocks in intervals, no overlap of new blocks, "
    "every node in CFG / symbols / expressions / any aux table is in the module, zero-sized blocks only in documented cases, "
    "addresses, protobuf round trip); then, per scenario with N patch callbacks, N more executions from a fresh build with an "
    "exception injected into callback k for EVERY k=1..N (enumerated), followed by the failure-path validator and one empty "
    "follow-up session; other fault kinds (callback returns None / empty text / ill-formed assembly / unknown symbol / "
    "redefinition) are sampled; distinct = (module, sessions) digest; non-trivial = at least one patch callback ran",
    "real_vs_stub": RW_REAL,
    "interleaving_measure": "distinct (engine step sequence of a session, fault kinds fired, injected fault position k) over all session executions",
    "level_text": "fault enumeration inside seeded exploration: for each sampled scenario every patch-callback position k is failed once (exhaustive per scenario); scenarios themselves are sampled",
    "assumptions": [
        "failure path: only what the property states is demanded (closed, serializable, ir.cfg is the caller's object with the cache's edges, no stranded symbol); nothing about re-joined intervals or addresses",
        "zero-sized blocks are judged against doc/Deletion.md as of the deletion: the successor is the successor in the pre-session address order (modifications are applied in address order), incoming control flow is that before or after the session, blocks made during the session do not count as 'other blocks'; blocks that were already zero-sized and sessions that insert functions are not judged",
    ],
}

PROPS["C06"] = {
    "engine": "rwsim",
    "level": "exploration",
    "quick_runs": 30000,
    "thorough_runs": 450000,
    "quick_wall": 240,
    "thorough_wall": 2400,
    "params": {"syscall_p": 0.05, "allow_target_on_data": True, "zero_hist_p": 0.06, "other_sect_p": 0.06, "isa_weights": [75, 15, 10], "delblock_p": 0.35, "insfn_p": 0.2, "constraints_p": 0.1, "extern_p": 0.08},
    "rule": "seeded scenarios with 0-4 functions (adjacent, interleaved with function-less code and data), edits at function "
    "boundaries, whole-function deletion, deletion of entry blocks and of the promoted block, inserted functions; distinct = "
    "(module, sessions) digest; non-trivial = at least one modification registered",
    "real_vs_stub": RW_REAL,
    "assumptions": ["which blocks are function entries is imported from the implementation at the start of each session (entry markers); what happens to them during the session is the model's"],
}

PROPS["C07"] = {
    "engine": "rwsim",
    "level": "exploration",
    "quick_runs": 15000,
    "thorough_runs": 225000,
    "quick_wall": 240,
    "thorough_wall": 2400,
    "params": {"syscall_p": 0.05, "isa_weights": [75, 15, 10], "scope_session_p": 0.85, "main_p": 0.4, "constraints_p": 0.1, "scope_insfn_p": 0.15, "nameless_p": 0.15},
    "rule": "seeded scenarios whose sessions register 1-4 scope-based insertions (AllBlocksScope / SingleBlockScope / "
    "AllFunctionsScope x ENTRY/EXIT/ANYWHERE x literal / regex / MAIN_NAME / ENTRYPOINT_NAME filters) plus insert_at at specific "
    "places, through a bare RewritingContext or a PassManager with 1-3 passes, with and without function tables; instrumented "
    "patches record the InsertionContext of every invocation and emit a marker unique per (registration, invocation); distinct = "
    "(module, sessions) digest; non-trivial = at least one scope-based registration",
    "real_vs_stub": RW_REAL,
    "assumptions": [
        "function exit blocks are read as: last instruction is ret / indirect jump, or branches or falls through to code outside the function (the documented meaning of gtirb_functions.Function.get_exit_blocks)",
        "the offset of ANYWHERE is only required to be an instruction boundary not after the terminator (bubbling may choose)",
        "scope sessions contain no deletions or replacements (a scope applies to every block; nothing may be registered after a whole-block deletion)",
    ],
}

PROPS["C08"] = {
    "engine": "rwsim",
    "level": "exploration",
    "quick_runs": 15000,
    "thorough_runs": 225000,
    "quick_wall": 240,
    "thorough_wall": 2400,
    "params": {"cfi_p": 1.0, "patch_cfi_p": 0.4, "isa": "x64", "fmt": "elf", "delblock_p": 0.3},
    "rule": "seeded x86-64 ELF scenarios with 0-3 CFI procedures (directives at block starts, instruction boundaries and block "
    "ends, personality/LSDA symbols, remember/restore) and edits at or around directive positions and procedure boundaries, "
    "patches with no or balanced CFI (adjust/adjust, remember/label/adjust/restore, and call emulation: jmp; label; closing directive); the input and output cfiDirectives tables are evaluated by the independent reference "
    "interpreter sim/cfi_ref.py and compared per instruction; distinct = (module, sessions) digest; non-trivial = at least "
    "one modification registered and at least one CFI procedure",
    "real_vs_stub": RW_REAL + "; CFI oracle: sim/cfi_ref.py (independent interpreter)",
    "assumptions": [
        "a procedure left without any instruction may be kept empty or dropped (DESIGN 3.4 C08)",
        "where directives sit exactly at the insertion point, the patch may see the state before or after them",
        "patch CFI is limited to balanced shapes: a pair of .cfi_adjust_cfa_offset, or .cfi_remember_state / .cfi_adjust_cfa_offset / .cfi_restore_state",
    ],
}

PROPS["C09"] = {
    "engine": "rwsim",
    "level": "exploration",
    "quick_runs": 10000,
    "thorough_runs": 150000,
    "quick_wall": 240,
    "thorough_wall": 2400,
    "params": {"syscall_p": 0.05, "zero_hist_p": 0.06, "isa_weights": [75, 15, 10], "insfn_p": 0.0, "align_p": 0.0, "multi_unit": 0.1, "delblock_p": 0.3},
    "rule": "seeded scenarios; the last session is executed twice from a fresh build: all modifications in one apply(), and one "
    "modification per apply() in the engine's order (positions re-derived through token identities); the UUID-free canonical "
    "dumps (temporary-label suffixes normalised) must be equal and an abort in one but not the other is a violation; in "
    "addition, after every engine insert/delete step the rewrite caches are compared with the IR (block ordering, function of a "
    "block, return-edge index, referents) and at every assemble step the referents the assembler read must be live; distinct = "
    "(module, sessions) digest; non-trivial = the compared session has at least two modifications",
    "interleaving_measure": "distinct per-run sequences of engine step kinds (invoke/insert/delete/split/join/remove)",
    "real_vs_stub": RW_REAL,
    "assumptions": [
        "compared sessions hold modifications at pairwise distinct (block, offset) places only",
        "modules without alignment requirements: alignment padding inserted by an intermediate apply() becomes part of the program for the next one, so batch and one-at-a-time legitimately differ in padding",
        "cache internals are read without calling any mutating accessor (read-only walk of the RefNode forest and of the BlockOrdering chains)",
    ],
}

PROPS["C10"] = {
    "engine": "rwsim",
    "level": "exploration",
    "quick_runs": 10000,
    "thorough_runs": 150000,
    "quick_wall": 240,
    "thorough_wall": 2400,
    "params": {"isa_weights": [85, 15, 0], "align_p": 0.7, "exotic_p": 0.3, "empty_session_p": 0.15, "patch_align_p": 0.15, "align_fill_p": 0.5},
    "rule": "seeded histories of edit sessions with an empty apply() before the first and after every session (dump with UUIDs and "
    "addresses must be unchanged, leafFunctions excepted, and a second empty apply() must change nothing); after every edit "
    "session the alignment requirements that held before and those of blocks added by patches must hold and padding must be "
    "minimal whole nops / zeros covered by blocks; 30% of the modules are 'exotic' (gaps before and between blocks, "
    "uninitialized tails with and without blocks, zero-sized and overlapping blocks) and only see empty sessions: since every "
    "apply() splits every interval and joins it again this is the split/join round trip; distinct = (module, sessions) digest; "
    "non-trivial = at least one empty session ran",
    "real_vs_stub": RW_REAL,
    "level_text": "seeded exploration of histories; PARTIAL claim: the standalone parameters of split_byte_interval / join_byte_intervals (explicit tables, nop_encodings, alignment argument, foreign decode modes) are pure configuration with no history or schedule in it and are not covered",
    "assumptions": ["exotic modules are only exercised by empty sessions (the listing model has no notion of uncovered or uninitialized bytes)"],
}

PROPS["C11"] = {
    "engine": "rwsim",
    "level": "exploration",
    "quick_runs": 3000,
    "thorough_runs": 45000,
    "quick_wall": 300,
    "thorough_wall": 2400,
    "params": {"syscall_p": 0.05, "isa_weights": [75, 15, 10], "k": 4, "insfn_p": 0.05, "constraints_p": 0.3, "repeat_p": 0.08, "no_temp_refs": True, "extern_p": 0.1, "shared_block_p": 0.15},
    "thorough_params": {"k": 8},
    "rule": "each seeded scenario is executed under K schedules (quick K=4, thorough K=8): fresh UUID stream, fresh node-hash salt "
    "(= iteration order of every set/dict of gtirb nodes), another PYTHONHASHSEED (helper interpreters), and a permuted "
    "registration order of the modifications that target different blocks; the UUID-free canonical dumps (block boundaries, edge "
    "multiset, temporary-label names, aux data, addresses) must be identical; distinct = (module, sessions) digest; non-trivial "
    "= at least one modification registered",
    "interleaving_measure": "distinct schedules sigma = (uuid seed, salt, PYTHONHASHSEED, permutation) under which scenarios were executed",
    "real_vs_stub": RW_REAL,
    "assumptions": [
        "kept fixed under permutation: the relative order of modifications inside one block, of scope-based registrations, register_insert_function and get_or_insert_extern_symbol calls",
        "set iteration order is driven through gtirb.node.Node.__hash__ (salted hash of the UUID) instead of memory addresses; identity equality is untouched",
    ],
}

PROPS["C18"] = {
    "engine": "rwsim",
    "level": "exploration",
    "quick_runs": 15000,
    "thorough_runs": 225000,
    "quick_wall": 240,
    "thorough_wall": 2400,
    "params": {"retarget_p": 0.9, "fwd_p": 0.5, "cfi_p": 0.3, "insfn_p": 0.0, "isa_weights": [70, 30, 0], "retarget_delete_p": 0.25},
    "rule": "seeded scenarios whose sessions contain retarget_symbol_uses requests (A/B internal or external in every "
    "combination, chains, several at once) inside edit histories, PIE and non-PIE, x86-64 ELF/PE and ARM64; the listing model "
    "rewrites every mention of A (code operands, data words) with the independently written attribute-conversion table, CFI "
    "personality/LSDA and symbolForwarding mentions are compared before/after, and the CFG is judged by the per-instruction "
    "rule with the retargeted operands; distinct = (module, sessions) digest; non-trivial = at least one retarget of a symbol "
    "that is used",
    "real_vs_stub": RW_REAL,
    "assumptions": ["avoided by construction: retargeting a symbol that occurs in a sym-sym expression or under overlapping blocks (NotImplementedError / AmbiguousIRError are documented)"],
}

PROPS["C19"] = {
    "engine": "rwsim",
    "level": "exploration",
    "quick_runs": 12000,
    "thorough_runs": 180000,
    "quick_wall": 240,
    "thorough_wall": 2400,
    "params": {"delsym_p": 0.9, "symtabs_p": 0.9, "fwd_p": 0.6, "cfi_p": 0.4, "insfn_p": 0.0, "retarget_p": 0.2, "retarget_delete_p": 0.9, "cfi_pe": True},
    "rule": "seeded scenarios (ELF and PE) whose symbols occur in random subsets of elfSymbolInfo, elfSymbolTabIdxInfo, "
    "elfSymbolVersions (shared / unshared version ids and libraries, base definition), functionNames, PE import/export lists, "
    "symbolForwarding keys and values, CFI personality/LSDA and symbolic expressions; sessions delete any number of symbols "
    "with any force flags (also twice with different flags), alone or inside edit histories; a non-forced symbol with uses must "
    "raise SymbolUsesRemainingError, after which the C05 failure-path validator runs; distinct = (module, sessions) digest; "
    "non-trivial = at least one delete_symbol request",
    "real_vs_stub": RW_REAL,
    "assumptions": ["symbolicExpressionSizes entries of removed expressions are not judged (the property does not mention them)"],
}

PROPS["C13"] = {
    "engine": "rwsim",
    "level": "exploration",
    "quick_runs": 8000,
    "thorough_runs": 120000,
    "quick_wall": 240,
    "thorough_wall": 2400,
    "params": {"other_sect_p": 0.06, "isa_weights": [75, 15, 10], "same_patch_p": 0.8, "asm_half": 50, "avoid_known": 0.8, "extern_p": 0.15},
    "rule": "two kinds of seeded runs, half each. (asmsim) an assembly text of 2-10 lines (instructions, labels, temporary labels, "
    "data directives, section switches, references to module symbols / externs / own earlier labels) is assembled whole and in "
    "EVERY split into consecutive chunks (all 2^k cut sets for up to 8 line boundaries, 64 sampled beyond; cuts that would make a "
    "chunk refer to a later label are skipped) and the UUID-free dumps of Assembler.Result must be equal; ill-formed chunks "
    "(syntax error, unknown symbol, redefinition) must raise their documented error. (rwsim) the same patch with temporary "
    "labels and references is inserted N in 1..8 times in one rewrite: no duplicate symbol names, no copy refers to another "
    "copy's temporary label, expressions hold the module's own symbol objects, unknown / redefined names raise "
    "UndefSymbolError / MultipleDefinitionsError; distinct = scenario digest; non-trivial = at least 3 lines / 1 insertion",
    "interleaving_measure": "distinct chunkings (cut sets) executed / distinct engine step sequences",
    "real_vs_stub": RW_REAL + "; asmsim: real Assembler + mcasm, simulated caller that fragments the text",
    "level_text": "seeded exploration; the chunking space of each sampled text with up to 9 lines is enumerated exhaustively",
    "assumptions": ["cross-session reuse of temporary-label suffixes (a fresh RewritingContext restarts the counter) is not judged: the statement speaks of one rewrite"],
}

# (moved below)
# engines built separately contribute their own entries
import importlib as _il

for _m in ("props_ctsim", "props_cfisim", "props_machsim", "props_asmsim"):
    try:
        PROPS.update(_il.import_module("sim." + _m).PROPS)
    except ModuleNotFoundError:
        pass

