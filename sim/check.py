"""bin/check front end: run a property's check, replay, shrink, evidence."""

import argparse
import collections
import json
import os
import sys
import threading
import time

from . import core, runner
from .props import PROPS


# --------------------------------------------------------------------------
# known findings


def load_findings():
    if not os.path.exists(core.FINDINGS_FILE):
        return []
    with open(core.FINDINGS_FILE) as f:
        return json.load(f)["findings"]


def finding_matches(finding, prop, vclass, sig):
    if finding.get("property") not in (prop, "*") or finding.get("status") != "open":
        return False
    fc = finding.get("class")
    if isinstance(fc, list):
        if vclass not in fc:
            return False
    elif fc != vclass:
        return False
    for k, v in (finding.get("match") or {}).items():
        if isinstance(v, list):
            if sig.get(k) not in v:
                return False
        elif sig.get(k) != v:
            return False
    return True


def match_finding(findings, prop, vclass, sig):
    for f in findings:
        if finding_matches(f, prop, vclass, sig):
            return f
    return None


# --------------------------------------------------------------------------
# shrinking


def same_failure(result, prop, vclass, sigkey):
    return (
        result.get("verdict") == core.Verdict.VIOLATION
        and result.get("property") == prop
        and result.get("vclass") == vclass
        and sig_key(result.get("sig")) == sigkey
    )


def sig_key(sig):
    sig = sig or {}
    return json.dumps({k: sig[k] for k in sorted(sig) if not k.startswith("_")}, sort_keys=True, default=str)


def shrink(pool, eng, engine_name, prop, scenario, result, params, budget_evals=400, budget_wall=120.0):
    vclass = result["vclass"]
    sigkey = sig_key(result.get("sig"))
    hs = scenario["sigma"]["hashseed"]
    t_end = time.time() + budget_wall
    evals = 0
    improved = True
    while improved and evals < budget_evals and time.time() < t_end:
        improved = False
        batch = []
        for cand in eng.shrink_candidates(prop, scenario):
            batch.append(cand)
            if len(batch) >= 8:
                r = _first_failing(pool, engine_name, prop, batch, params, hs, vclass, sigkey)
                evals += len(batch)
                batch = []
                if r is not None:
                    scenario, result = r
                    improved = True
                    break
                if evals >= budget_evals or time.time() > t_end:
                    break
        if not improved and batch:
            r = _first_failing(pool, engine_name, prop, batch, params, hs, vclass, sigkey)
            evals += len(batch)
            if r is not None:
                scenario, result = r
                improved = True
    return scenario, result, evals


def _first_failing(pool, engine_name, prop, cands, params, hs, vclass, sigkey):
    tasks = [
        {"op": "replay", "engine": engine_name, "prop": prop, "scenario": c, "params": params, "hashseed": c["sigma"].get("hashseed", hs), "want_scenario": True}
        for c in cands
    ]
    answers = pool.call_many(tasks)
    for c, a in zip(cands, answers):
        if a and same_failure(a["result"], prop, vclass, sigkey):
            return a.get("scenario", c), a["result"]
    return None


# --------------------------------------------------------------------------
# replay files


def write_replay(prop, engine_name, scenario, result, params, tag):
    os.makedirs(core.REPLAY_DIR, exist_ok=True)
    body = {
        "property": prop,
        "engine": engine_name,
        "params": params,
        "scenario": scenario,
        "violation": {
            "class": result["vclass"],
            "sig": result.get("sig"),
            "witness_digest": core.digest(result.get("witness")),
            "witness": result.get("witness"),
        },
    }
    path = os.path.join(core.REPLAY_DIR, f"{prop}-{tag}-{core.digest(scenario)}.json")
    with open(path, "w") as f:
        json.dump(body, f, indent=1, default=str)
    return path


def do_replay(path, pool=None):
    with open(path) as f:
        body = json.load(f)
    own = pool is None
    if own:
        pool = runner.Pool(nworkers=core.HASHSEED_CLASSES)
    try:
        task = {
            "id": 0,
            "op": "replay",
            "engine": body["engine"],
            "prop": body["property"],
            "scenario": body["scenario"],
            "params": body.get("params") or {},
            "hashseed": body["scenario"]["sigma"]["hashseed"],
        }
        a = pool.call_one(task)
    finally:
        if own:
            pool.close()
    return body, a["result"]


def replay_main(path):
    body, res = do_replay(path)
    want = body["violation"]
    print(json.dumps({k: res.get(k) for k in ("verdict", "property", "vclass", "sig", "witness", "error")}, indent=1, default=str))
    if res.get("verdict") == core.Verdict.HARNESS:
        print(res.get("trace"))
        return 2
    if (
        res.get("verdict") == core.Verdict.VIOLATION
        and res.get("vclass") == want["class"]
        and core.digest(res.get("witness")) == want["witness_digest"]
    ):
        print(f"VIOLATION property={body['property']} replay={path}")
        print("replay reproduced: same class and witness digest")
        return 1
    if res.get("verdict") == core.Verdict.VIOLATION:
        print(f"VIOLATION property={body['property']} replay={path}")
        print("replay fails, but with a different class/witness than recorded")
        return 1
    print("replay does not fail on this tree")
    return 0


# --------------------------------------------------------------------------
# main check


def run_check(prop, tier, seed, nruns=None, quiet=False):
    cfg = PROPS[prop]
    engine_name = cfg["engine"]
    from . import engines

    eng = engines.get(engine_name)
    params = dict(cfg.get("params") or {})
    params.update(cfg.get(tier + "_params") or {})
    n = nruns or cfg[tier + "_runs"]
    wall_cap = cfg.get(tier + "_wall", 600 if tier == "quick" else 3600)
    t0 = time.time()
    findings = [f for f in load_findings() if f.get("property") == prop or (f.get("property") == "*" and engine_name in (f.get("engines") or [engine_name]))]
    stats = collections.Counter()
    verdicts = collections.Counter()
    sdigs = set()
    nontrivial = set()
    interleavings = set()
    sigmas = set()
    samples = []
    violations = []  # (scenario, result)
    known_tally = collections.Counter()
    known_examples = {}
    harness = []
    walls = []
    stop = threading.Event()
    max_unknown = 3

    def on_result(t, a):
        r = a["result"]
        verdicts[r["verdict"]] += 1
        walls.append(a.get("wall", 0.0))
        for k, v in (r.get("stats") or {}).items():
            stats[k] += v
        meta = r.get("meta") or {}
        if meta.get("sdig"):
            sdigs.add(meta["sdig"])
            if meta.get("nontrivial"):
                nontrivial.add(meta["sdig"])
        for il in meta.get("interleavings") or []:
            interleavings.add(il)
        if meta.get("sigma"):
            sigmas.add(meta["sigma"])
        if "sample" in a and len(samples) < 3:
            samples.append(a["sample"])
        if r["verdict"] == core.Verdict.VIOLATION:
            f = match_finding(findings, prop, r["vclass"], r.get("sig") or {})
            if f:
                known_tally[f["id"]] += 1
                if f["id"] not in known_examples and a.get("scenario") is not None:
                    known_examples[f["id"]] = (a["scenario"], r)
            else:
                violations.append((a.get("scenario"), r))
                if len(violations) >= max_unknown:
                    stop.set()
        elif r["verdict"] == core.Verdict.HARNESS:
            harness.append(r)
            if len(harness) >= 3:
                stop.set()

    tasks = []
    for i in range(n):
        s = core.derive(seed, prop, engine_name, i)
        tasks.append(
            {
                "id": i,
                "op": "run",
                "engine": engine_name,
                "prop": prop,
                "seed": s,
                "params": params,
                "hashseed": core.hashseed_of(s),
                "want_sample": i < 3,
            }
        )

    out_lines = []
    exit_code = 0
    known_lines = []
    with runner.Pool(task_cap=cfg.get("task_cap", 120.0)) as pool:
        # 1. replay committed witnesses of open findings
        for f in findings:
            if f.get("status") != "open":
                continue
            wpath = os.path.join(core.VERIF_ROOT, f["witness"])
            body, res = do_replay(wpath, pool)
            if res.get("verdict") == core.Verdict.VIOLATION and finding_matches(f, prop, res["vclass"], res.get("sig") or {}):
                known_lines.append(f"KNOWN-FINDING: property={prop} {f['id']}: {f['what']}")
            elif res.get("verdict") == core.Verdict.HARNESS:
                harness.append(res)
            elif res.get("verdict") == core.Verdict.VIOLATION:
                violations.append((body["scenario"], res))
            else:
                known_lines.append(f"NOTE: finding {f['id']} no longer reproduces on this tree (witness passes)")
        # 2. exploration
        pool.map(tasks, on_result=on_result, deadline=t0 + wall_cap, stop_flag=stop)
        # 3. shrink and confirm unknown violations
        reported = []
        seen_keys = set()
        for scenario, result in violations:
            key = (result["vclass"], sig_key(result.get("sig")))
            if key in seen_keys:
                continue
            seen_keys.add(key)
            if scenario is None:
                harness.append({"error": "violation without scenario"})
                continue
            small, sres, evals = shrink(pool, eng, engine_name, prop, scenario, result, params)
            stats["shrink_evals"] += evals
            # the minimised scenario may match a known finding
            f = match_finding(findings, prop, sres["vclass"], sres.get("sig") or {})
            if f:
                known_tally[f["id"]] += 1
                continue
            path = write_replay(prop, engine_name, small, sres, params, "viol")
            body, again = do_replay(path, pool)
            if same_failure(again, prop, sres["vclass"], sig_key(sres.get("sig"))):
                reported.append((path, sres))
                continue
            # The failure depends on something outside the scenario - for a
            # deterministic library that can only be state an earlier run left
            # behind in the interpreter.  An engine may know how to turn that
            # into a scenario that carries its own history (C11: the rewrite
            # repeated in one throw-away interpreter).
            stab = getattr(eng, "stabilize", None)
            alt = stab(prop, scenario) if stab else None
            fixed = False
            if alt is not None:
                a = pool.call_one({"id": 0, "op": "replay", "engine": engine_name, "prop": prop, "scenario": alt, "params": params, "hashseed": alt["sigma"].get("hashseed", 0), "want_scenario": True})
                ares = a["result"]
                if ares.get("verdict") == core.Verdict.VIOLATION and not match_finding(findings, prop, ares["vclass"], ares.get("sig") or {}):
                    small2, sres2, evals2 = shrink(pool, eng, engine_name, prop, a.get("scenario", alt), ares, params)
                    stats["shrink_evals"] += evals2
                    path2 = write_replay(prop, engine_name, small2, sres2, params, "viol")
                    body2, again2 = do_replay(path2, pool)
                    if same_failure(again2, prop, sres2["vclass"], sig_key(sres2.get("sig"))):
                        reported.append((path2, sres2))
                        fixed = True
            if not fixed:
                harness.append({"error": f"minimised replay did not reproduce: {path}", "trace": json.dumps(again, default=str)[:2000]})
        if os.environ.get("VERIF_SAVE_KNOWN"):
            for fid, (scenario, result) in known_examples.items():
                small, sres, _ = shrink(pool, eng, engine_name, prop, scenario, result, params)
                print("known example:", write_replay(prop, engine_name, small, sres, params, "known-" + fid))
    wall = time.time() - t0

    for line in known_lines:
        print(line)
    for fid, cnt in sorted(known_tally.items()):
        print(f"KNOWN-FINDING-TALLY: property={prop} {fid} matched {cnt} explored run(s)")
    for path, sres in reported:
        print(f"VIOLATION property={prop} replay={path}")
        print(f"  class={sres['vclass']} sig={json.dumps(sres.get('sig'), default=str)}")
        print(f"  witness={json.dumps(sres.get('witness'), default=str)[:1500]}")
        exit_code = 1
    if harness and exit_code == 0:
        exit_code = 2
    for h in harness[:3]:
        print("HARNESS-ERROR:", h.get("error"))
        if h.get("trace"):
            print(h["trace"][-3000:])

    evaluations = sum(verdicts.values())
    ev = {
        "property_id": prop,
        "tier": tier,
        "seed": seed,
        "level": cfg["level"],
        "coverage": {
            "evaluations": evaluations,
            "distinct_nontrivial": len(nontrivial),
            "rule": cfg["rule"],
            "samples": samples or ["(no sample recorded)"],
            "distinct_scenarios": len(sdigs),
            "distinct_interleavings": len(interleavings),
            "interleaving_measure": cfg.get("interleaving_measure", "distinct per-run sequences of engine step kinds"),
            "distinct_sigmas": len(sigmas),
            "verdicts": dict(verdicts),
            "counters": {k: stats[k] for k in sorted(stats)},
            "runs_per_hour": int(evaluations / wall * 3600) if wall > 0 else 0,
            "mean_run_ms": round(1000 * sum(walls) / len(walls), 2) if walls else 0,
            "planned_runs": n,
            "budget_exhausted": evaluations < n and not stop.is_set(),
            "simulated_time": "not applicable: nothing in scope reads a clock",
            "real_vs_stub": cfg.get("real_vs_stub", ""),
            "known_findings_matched": dict(known_tally),
            "harness_errors": len(harness),
            "exhaustive": False,
        },
        "assumptions": cfg.get("assumptions", []),
        "wall_s": round(wall, 2),
        "violations": len(reported),
    }
    os.makedirs(core.EVIDENCE_DIR, exist_ok=True)
    with open(os.path.join(core.EVIDENCE_DIR, f"{prop}.json"), "w") as f:
        json.dump(ev, f, indent=1, default=str)
    if not quiet:
        print(
            f"{prop} {tier}: {evaluations} runs in {wall:.1f}s, verdicts={dict(verdicts)}, "
            f"distinct_nontrivial={len(nontrivial)}, interleavings={len(interleavings)}, exit={exit_code}"
        )
    return exit_code


def main(argv=None):
    ap = argparse.ArgumentParser()
    ap.add_argument("prop", nargs="?")
    ap.add_argument("--tier", default=os.environ.get("VERIF_TIER", "quick"))
    ap.add_argument("--replay")
    ap.add_argument("--runs", type=int)
    ap.add_argument("--seed", type=int)
    argv = sys.argv[1:] if argv is None else argv
    if argv and argv[0] == "selftest":
        from . import selftest

        return selftest.main(argv[1:])
    args = ap.parse_args(argv)
    if args.replay:
        return replay_main(args.replay)
    if args.prop == "selftest":
        from . import selftest

        return selftest.main()
    seed = args.seed if args.seed is not None else int(os.environ.get("VERIF_SEED", "20260923"))
    tier = args.tier if args.tier in ("quick", "thorough") else "quick"
    return run_check(args.prop, tier, seed, nruns=args.runs)


if __name__ == "__main__":
    sys.exit(main())
