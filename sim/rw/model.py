"""Reference model: the assembly listing (DESIGN 3.1).

Per section an ordered list of units (one per byte interval); each unit an
ordered list of tokens, edited with list operations only.  Byte positions are
derived by summing sizes.  No caches, no offset arithmetic on the IR.
"""

import copy


class Tok:
    __slots__ = (
        "kind",  # 'insn' | 'data' | 'label' | 'mark'
        "id",  # stable identity
        "b",  # bytes (insn/data)
        "ikind",  # plain/jmp/jcc/call/ret/ijmp/icall (insn)
        "target",  # label name of the control/reference operand (insn)
        "sx",  # [(rel_off, size, exprdesc)] symbolic expressions
        "ann",  # {(table, keying, rel_off): value} byte-attached annotations
        "func",  # function id or None (insn)
        "origin",  # 'orig' | ('patch', op_id, invocation)
        "name",  # label: symbol name
        "att",  # label: Span it is attached to (or None = other)
        "at_end",  # label: attached at the end of att
        "entry",  # insn: not used; see Span.entry
        "slid",  # label: moved onto another block during this session
    )

    def __init__(self, kind, id, **kw):
        self.kind = kind
        self.id = id
        self.b = b""
        self.ikind = None
        self.target = None
        self.sx = []
        self.ann = {}
        self.func = None
        self.origin = "orig"
        self.name = None
        self.att = None
        self.at_end = False
        self.entry = False
        self.slid = False
        for k, v in kw.items():
            setattr(self, k, v)

    @property
    def size(self):
        return len(self.b)

    def is_bytes(self):
        return self.kind in ("insn", "data")

    def __repr__(self):
        if self.kind == "label":
            return f"<{self.name}:>"
        if self.kind == "mark":
            return f"<mark {self.id}>"
        return f"<{self.kind} {self.id} {self.ikind or ''} {self.b.hex()}>"


class Unit:
    def __init__(self, uid, toks=None):
        self.id = uid
        self.toks = toks or []
        self.new = False  # created by this session
        self.lead_gap = 0

    def bytes(self):
        return b"".join(t.b for t in self.toks)

    def positions(self):
        """byte position of every token"""
        pos = []
        p = 0
        for t in self.toks:
            pos.append(p)
            p += len(t.b)
        return pos, p


class Span:
    """A real block as seen at the start of a session: a contiguous run of
    byte tokens of one unit."""

    def __init__(self, key, sect, unit, start, size, kind, tok_ids, offsets, func, is_entry):
        self.key = key  # uuid string of the real block
        self.sect = sect
        self.unit = unit
        self.start = start
        self.size = size
        self.kind = kind  # 'code' | 'data'
        self.tok_ids = tok_ids  # byte tokens in order
        self.offsets = offsets  # orig offset -> tok id
        self.func = func
        self.is_entry = is_entry
        self.alive = True  # not wholly deleted in this session
        self.remaining = set(tok_ids)
        self.inserted = False
        self.end_mark = None
        self.order = None  # rank in section order


class Model:
    def __init__(self):
        self.sections = {}  # name -> [Unit]
        self.section_order = []
        self.proxy_syms = set()  # names bound to proxies (externs, proxied)
        self.abs_syms = []  # names of absolute (integer-valued) module symbols
        self.spans = {}  # key -> Span (current session)
        self.span_list = {}  # section -> [Span] in order
        self.funcs = {}  # func id -> {"name": sym name}
        self.entries = {}  # func id -> set of tok ids (first byte tok of entry blocks)
        self.dropped_funcs = set()
        self.proxy_ambiguous = set()
        self.proxy_fall = set()
        self.reordered_ever = False
        self.counter = 0
        self.new_units = []

    # ---------------------------------------------------------------- query
    def clone(self):
        return copy.deepcopy(self)

    def units(self):
        for s in self.section_order:
            for u in self.sections[s]:
                yield s, u

    def find(self, tok_id):
        for s, u in self.units():
            for i, t in enumerate(u.toks):
                if t.id == tok_id:
                    return s, u, i
        return None

    def byte_tokens(self, sect):
        for u in self.sections[sect]:
            for t in u.toks:
                if t.is_bytes():
                    yield u, t

    def label_positions(self):
        """name -> (section, unit id, byte pos)"""
        out = {}
        for s, u in self.units():
            pos, _ = u.positions()
            for t, p in zip(u.toks, pos):
                if t.kind == "label":
                    out.setdefault(t.name, []).append((s, u.id, p))
        return out

    # ------------------------------------------------------------- sessions
    def begin_session(self, real_spans, label_att):
        """real_spans: section -> [ (unit id, [ (key, start, size, kind, func, is_entry) ]) ]
        in address order.  label_att: name -> (block key, at_end).
        Imports block spans (structure is implementation-defined between
        sessions; content never is)."""
        self.spans = {}
        self.span_list = {}
        self.new_units = []
        self.proxy_ambiguous = set()
        for s, u in self.units():
            u.toks = [t for t in u.toks if t.kind != "entry"]
        for sect, units in real_spans.items():
            lst = []
            for uid, blocks in units:
                unit = next(u for u in self.sections[sect] if u.id == uid)
                pos, total = unit.positions()
                bt = [(p, t) for p, t in zip(pos, unit.toks) if t.is_bytes()]
                for key, start, size, kind, func, is_entry in blocks:
                    ids = []
                    offs = {}
                    for p, t in bt:
                        if start <= p < start + size:
                            if p + len(t.b) > start + size:
                                raise ModelMismatch("block boundary inside a token", (sect, uid, key, start, size, t.id))
                            ids.append(t.id)
                            offs[p - start] = t.id
                        elif p < start < p + len(t.b):
                            raise ModelMismatch("block boundary inside a token", (sect, uid, key, start, size, t.id))
                    sp = Span(key, sect, unit, start, size, kind, ids, offs, func, is_entry)
                    sp.order = len(lst)
                    lst.append(sp)
                    self.spans[key] = sp
            self.span_list[sect] = lst
        # entry markers: directly in front of the first byte token of every
        # function entry block (after its labels)
        for sect, lst in self.span_list.items():
            for sp in lst:
                if sp.is_entry and sp.tok_ids and sp.func is not None:
                    idx = next(i for i, t in enumerate(sp.unit.toks) if t.id == sp.tok_ids[0])
                    sp.unit.toks.insert(idx, Tok("entry", ("entry", sp.key), func=sp.func, att=sp))
        # end marks: directly after the last byte token of each span
        for sect, lst in self.span_list.items():
            for sp in lst:
                if not sp.tok_ids:
                    continue
                last = sp.tok_ids[-1]
                idx = next(i for i, t in enumerate(sp.unit.toks) if t.id == last)
                m = Tok("mark", ("end", sp.key))
                sp.unit.toks.insert(idx + 1, m)
                sp.end_mark = m
        # label attachments
        for s, u in self.units():
            for t in u.toks:
                if t.kind == "label":
                    a = label_att.get(t.name)
                    t.slid = False
                    if a is None:
                        t.att, t.at_end = None, False
                    else:
                        t.att, t.at_end = self.spans.get(a[0]), a[1]

    def end_session(self):
        for s, u in self.units():
            u.toks = [t for t in u.toks if t.kind != "mark"]
            u.new = False
        self.spans = {}
        self.span_list = {}

    # ----------------------------------------------------------------- edits
    def _index_in(self, unit, tok):
        for i, t in enumerate(unit.toks):
            if t is tok:
                return i
        raise KeyError(tok)

    def _index_of_id(self, unit, tok_id):
        for i, t in enumerate(unit.toks):
            if t.id == tok_id:
                return i
        raise KeyError(tok_id)

    def insert(self, span_key, offset, new_toks, replace_len=0):
        """Insert tokens at (block, offset).  Inside a block: directly before
        the byte token at that offset.  At the end: before the block's end
        mark (i.e. after its last byte and anything inserted there before,
        and before its end-of-block labels).  With replace_len the tokens
        take the place of the (already deleted) range."""
        sp = self.spans[span_key]
        unit = sp.unit
        offset += replace_len
        if offset == sp.size:
            idx = self._index_in(unit, sp.end_mark)
        else:
            tid = sp.offsets.get(offset)
            if tid is None:
                raise ModelMismatch("insert offset is not a token boundary", (span_key, offset))
            idx = self._index_of_id(unit, tid)
        for t in new_toks:
            if t.kind == "insn" and sp.kind == "code":
                t.func = sp.func
        unit.toks[idx:idx] = new_toks
        if any(t.is_bytes() for t in new_toks):
            sp.inserted = True

    def delete(self, span_key, offset, length, proxy=False, replacing=False):
        sp = self.spans[span_key]
        unit = sp.unit
        ids = set()
        for off, tid in sp.offsets.items():
            if offset <= off < offset + length:
                ids.add(tid)
        covered = sum(len(t.b) for t in unit.toks if t.id in ids)
        if covered != length:
            raise ModelMismatch("deleted range is not a whole number of tokens", (span_key, offset, length, covered))
        if proxy and ids:
            # labels directly in front of the block's first byte are, in the
            # listing, indistinguishable from the block's own labels
            first = min(i for i, t in enumerate(unit.toks) if t.id in ids)
            j = first - 1
            while j >= 0 and not unit.toks[j].is_bytes():
                if unit.toks[j].kind == "label":
                    self.proxy_ambiguous.add(unit.toks[j].name)
                j -= 1
            # documented: incoming control flow (a fallthrough from the
            # preceding instruction included) is redirected to the proxy;
            # a zero-width marker remembers the place
            self.counter += 1
            unit.toks.insert(first, Tok("pmark", f"pm{self.counter}"))
        unit.toks = [t for t in unit.toks if t.id not in ids]
        sp.remaining -= ids
        if sp.size > 0 and not sp.remaining and not sp.inserted and not replacing and sp.alive:
            self._whole_block_deleted(sp, proxy)

    def _whole_block_deleted(self, sp, proxy):
        sp.alive = False
        lst = self.span_list[sp.sect]
        nxt = next((s for s in lst[sp.order + 1 :] if s.alive and s.size), None)
        prv = next((s for s in reversed(lst[: sp.order]) if s.alive and s.size), None)
        has_next = nxt is not None or any(u.new for u in self.sections[sp.sect])
        for s, u in self.units():
            keep = []
            for t in u.toks:
                if t.kind == "label" and t.att is sp:
                    if proxy and t.slid:
                        # a label that slid here from a block deleted earlier
                        # in this session: whether it counts as a label of
                        # this block depends on whether that block could be
                        # removed (doc/Deletion.md); the implementation decides
                        self.proxy_ambiguous.add(t.name)
                    elif proxy:
                        self.proxy_syms.add(t.name)
                        continue
                    elif has_next:
                        t.att, t.at_end, t.slid = nxt, False, True
                    elif prv is not None or self._any_bytes_before(sp):
                        t.att, t.at_end, t.slid = prv, True, True
                    # else: the block is kept zero-sized; the label stays
                keep.append(t)
            u.toks = keep
        # function entries: promotion only within the same function
        for s, u in self.units():
            keep = []
            for t in u.toks:
                if t.kind == "entry" and t.att is sp:
                    if (not proxy) and nxt is not None and nxt.kind == "code" and nxt.func == t.func and self._adjacent(sp, nxt):
                        t.att = nxt
                    elif (not proxy) and nxt is not None and nxt.kind == "data" and self._adjacent(sp, nxt):
                        # the entry block may survive as a zero-sized block
                        # (e.g. when it is the module's entry point) and be
                        # promoted once the data block is deleted as well:
                        # from here on the promotion is optional
                        t.att = nxt
                        t.slid = True
                    else:
                        continue
                keep.append(t)
            u.toks = keep
        if sp.is_entry and sp.func is not None:
            if (not proxy) and nxt is not None and nxt.kind == "code" and nxt.func == sp.func and self._adjacent(sp, nxt):
                nxt.is_entry = True
            sp.is_entry = False

    def _adjacent(self, sp, nxt):
        # next block in section order (spans between were deleted)
        lst = self.span_list[sp.sect]
        for s in lst[sp.order + 1 : nxt.order]:
            if s.alive and s.size:
                return False
        return True

    def _any_bytes_before(self, sp):
        for u in self.sections[sp.sect]:
            for t in u.toks:
                if t is sp.end_mark:
                    return False
                if t.is_bytes():
                    return True
        return False

    def retarget(self, pairs, convert):
        """retarget_symbol_uses: every expression that names A now names B
        (simultaneously for all pairs), attributes converted by
        ``convert(token, attrs, a_is_internal, b_is_internal)``."""
        mp = dict(pairs)
        internal = lambda n: n not in self.proxy_syms
        for _, u in self.units():
            for t in u.toks:
                if not t.sx:
                    continue
                new = []
                for rel, size, ed in t.sx:
                    if ed[0] == "const" and ed[1] in mp:
                        b = mp[ed[1]]
                        attrs = convert(t, tuple(ed[4]), internal(ed[1]), internal(b))
                        ed = ("const", b, None, ed[3], tuple(sorted(attrs)))
                    new.append((rel, size, ed))
                t.sx = new
                if t.target in mp and t.kind == "insn" and t.ikind in ("jmp", "jcc", "call"):
                    t.target = mp[t.target]
                elif t.target in mp:
                    t.target = mp[t.target]

    def delete_symbols(self, names):
        """delete_symbol (after everything else): the labels disappear and
        so does every expression that mentions one of the symbols."""
        for _, u in self.units():
            keep = []
            for t in u.toks:
                if t.kind == "label" and t.name in names:
                    continue
                if t.sx:
                    t.sx = [(rel, size, ed) for rel, size, ed in t.sx if not (ed[1] in names or (ed[0] == "diff" and ed[2] in names))]
                if t.target in names:
                    t.target = None
                keep.append(t)
            u.toks = keep
        self.proxy_syms -= set(names)

    def add_unit(self, sect, toks, create=True, name=None):
        if sect not in self.sections:
            self.sections[sect] = []
            self.section_order.append(sect)
        self.counter += 1
        u = Unit(name or f"new{self.counter}", toks)
        u.new = True
        self.sections[sect].append(u)
        self.new_units.append((sect, u))
        return u

    def fresh_id(self, prefix):
        self.counter += 1
        return f"{prefix}{self.counter}"


class ModelMismatch(Exception):
    """The real block structure cannot be mapped onto the listing (a block
    boundary falls inside a token, ...)."""

    def __init__(self, what, detail=None):
        super().__init__(f"{what}: {detail}")
        self.what = what
        self.detail = detail
