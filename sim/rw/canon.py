"""UUID-free canonical dump of a module (DESIGN section 2).  Nodes are named
by descriptor: a block by (section, interval rank, offset, size, kind), a
symbol by its (normalised) name, a function by the name of its name symbol.
Used by C09 (batch vs one-at-a-time), C10 (identity), C11 (determinism)."""

import re
import uuid as _uuid

import gtirb

from .driver import block_kind, sorted_blocks, sorted_intervals

# (temporary-label prefixes: .L on ELF and x64 PE, L on IA-32 PE, $L / L$ on MIPS / Mach-O style targets)
TEMP = re.compile(r"^(\.L.*|\$L.*|L\$.*|Ls\d+[a-z]\w*)_\d+$")


def norm_name(name, strip_temp):
    if strip_temp and TEMP.match(name):
        return re.sub(r"_\d+$", "_N", name)
    return name


def dump(world_or_module, strip_temp=False, with_addresses=True, unit_names=False):
    """With ``unit_names`` byte intervals are named by the listing unit they
    hold (stable across runs) instead of by their address rank, so that a
    different interval order only shows up in the 'addr' fields."""
    m = getattr(world_or_module, "module", world_or_module)
    ir = m.ir
    names = getattr(world_or_module, "unit_of_interval", {}) if unit_names else {}

    def ranked(sect):
        ivs = sorted_intervals(sect)
        if names:
            ivs = sorted(ivs, key=lambda bi: str(names.get(str(bi.uuid), "~" + str(bi.address))))
        return ivs

    loc = {}  # block uuid -> descriptor
    out = {"sections": [], "isa": m.isa.name, "ff": m.file_format.name}
    for sect in sorted(m.sections, key=lambda s: s.name):
        sd = {"name": sect.name, "flags": sorted(f.name for f in sect.flags), "intervals": []}
        for rank, bi in enumerate(ranked(sect)):
            if names:
                rank = str(names.get(str(bi.uuid), "?"))
            bl = []
            ties = {}
            for b in sorted_blocks(bi):
                key = (sect.name, rank, b.offset, b.size, block_kind(b))
                n = ties.get(key, 0)
                ties[key] = n + 1
                loc[b.uuid] = key + ((n,) if n else ())
                bl.append([b.offset, b.size, block_kind(b)])
            sx = sorted((off, _expr(e, strip_temp)) for off, e in bi.symbolic_expressions.items())
            d = {"unit": rank, "size": bi.size, "init": bi.initialized_size, "bytes": bytes(bi.contents).hex(), "blocks": bl, "symexprs": sx}
            if with_addresses:
                d["addr"] = bi.address
            sd["intervals"].append(d)
        out["sections"].append(sd)

    def node(n):
        if isinstance(n, gtirb.ByteBlock):
            return ("block",) + tuple(loc.get(n.uuid, ("?",)))
        if isinstance(n, gtirb.ProxyBlock):
            return ("proxy", tuple(sorted(norm_name(s.name, strip_temp) for s in n.references)))
        if isinstance(n, gtirb.Symbol):
            return ("sym", norm_name(n.name, strip_temp))
        if isinstance(n, gtirb.Section):
            return ("section", n.name)
        if isinstance(n, gtirb.ByteInterval):
            s = n.section
            if names:
                return ("interval", s.name if s else None, str(names.get(str(n.uuid), "?")))
            return ("interval", s.name if s else None, sorted_intervals(s).index(n) if s else None)
        return ("node", type(n).__name__)

    syms = []
    for s in m.symbols:
        r = s._payload if hasattr(s, "_payload") else s.referent
        syms.append((norm_name(s.name, strip_temp), node(r) if isinstance(r, gtirb.Node) else ("value", r), bool(s.at_end)))
    out["symbols"] = sorted(syms, key=repr)
    out["proxies"] = len(m.proxies)
    edges = []
    for e in ir.cfg:
        lab = (e.label.type.name, bool(e.label.conditional), bool(e.label.direct)) if e.label else None
        edges.append((node(e.source), node(e.target), lab))
    out["cfg"] = sorted(edges, key=repr)
    fnames = {}
    fn = m.aux_data.get("functionNames")
    if fn is not None:
        for fu, sym in fn.data.items():
            fnames[fu] = norm_name(sym.name, strip_temp)

    def norm(x):
        if isinstance(x, gtirb.Node):
            return node(x)
        if isinstance(x, gtirb.Offset):
            return ("offset", node(x.element_id), x.displacement)
        if isinstance(x, _uuid.UUID):
            if x in fnames:
                return ("func", fnames[x])
            return ("uuid", "null" if x.int == 0 else "?")
        if hasattr(x, "items"):
            return ("dict", sorted(((norm(k), norm(v)) for k, v in x.items()), key=repr))
        if isinstance(x, (set, frozenset)):
            return ("set", sorted((norm(v) for v in x), key=repr))
        if isinstance(x, (list, tuple)):
            return ("seq", [norm(v) for v in x])
        if isinstance(x, (bytes, bytearray)):
            return bytes(x).hex()
        return x

    out["aux"] = {k: norm(v.data) for k, v in sorted(m.aux_data.items())}
    out["entry"] = node(m.entry_point) if m.entry_point is not None else None
    return out


def _expr(e, strip_temp):
    if isinstance(e, gtirb.SymAddrConst):
        return ("const", norm_name(e.symbol.name, strip_temp), e.offset, tuple(sorted(a.name for a in e.attributes)))
    if isinstance(e, gtirb.SymAddrAddr):
        return ("diff", norm_name(e.symbol1.name, strip_temp), norm_name(e.symbol2.name, strip_temp), e.scale, e.offset, tuple(sorted(a.name for a in e.attributes)))
    return ("other", repr(e))


def first_diff(a, b, path=""):
    """Human-readable location of the first difference."""
    if type(a) != type(b):
        return f"{path}: {type(a).__name__} vs {type(b).__name__}"
    if isinstance(a, dict):
        for k in sorted(set(a) | set(b), key=str):
            if k not in a or k not in b:
                return f"{path}/{k}: only on one side"
            d = first_diff(a[k], b[k], f"{path}/{k}")
            if d:
                return d
        return None
    if isinstance(a, (list, tuple)):
        for i, (x, y) in enumerate(zip(a, b)):
            d = first_diff(x, y, f"{path}[{i}]")
            if d:
                return d
        if len(a) != len(b):
            extra = (a if len(a) > len(b) else b)[min(len(a), len(b))]
            return f"{path}: length {len(a)} vs {len(b)}; first extra: {str(extra)[:160]}"
        return None
    if a != b:
        return f"{path}: {str(a)[:120]} vs {str(b)[:120]}"
    return None


def part_of(diff_path):
    """Which part of the dump a difference is in (for signatures)."""
    if diff_path is None:
        return None
    p = diff_path.strip("/").split("/")
    if p[0] == "aux" and len(p) > 1:
        return "aux:" + p[1].split("[")[0].rstrip(":")
    head = p[0].split("[")[0].rstrip(":")
    if head == "sections":
        for key in ("bytes", "blocks", "symexprs", "addr", "size", "init", "flags"):
            if key in diff_path:
                return key
    return head
