"""Control flow of a listing, per instruction (the C03 rule).

Used (a) to construct the input CFG, so that 'input CFG consistent with its
code' holds by construction, and (b) as the oracle after a rewrite.
"""

from .vocab import NO_FALLTHROUGH


def label_index(model):
    """name -> (sect, unit, token index) for every label token"""
    out = {}
    for s, u in model.units():
        for i, t in enumerate(u.toks):
            if t.kind == "label":
                out[t.name] = (s, u, i)
    return out


def next_byte_token(model, sect, unit, idx):
    """first byte token at or after token index idx, continuing into the
    following units of the section; returns (unit, tok) or None"""
    units = model.sections[sect]
    ui = units.index(unit)
    for t in unit.toks[idx:]:
        if t.is_bytes():
            return unit, t
    for u in units[ui + 1 :]:
        for t in u.toks:
            if t.is_bytes():
                return u, t
    return None


def expected_edges(model, entry_toks=None):
    """-> list of edges (src_tok_id, type, conditional, direct, target) with
    target one of ('tok', tok_id)  - the byte token at the target position,
                  ('end', sect)    - position at the very end of a section,
                  ('sym', name)    - the proxy of that symbol,
                  ('anon',)        - some unknown proxy.
    Only instructions that need edges are listed; plain instructions in the
    middle of a block fall through implicitly and are reported with type
    'Fallthrough' too so that the oracle can check block-final ones."""
    labels = label_index(model)
    edges = []
    calls_by_func = {}
    rets = []
    for sect in model.section_order:
        seq = []
        for u in model.sections[sect]:
            for i, t in enumerate(u.toks):
                if t.is_bytes():
                    seq.append((u, i, t))
        for n, (u, i, t) in enumerate(seq):
            if t.kind != "insn" or t.ikind == "pad":
                continue  # (nothing is demanded of the library's own padding)
            nxt = seq[n + 1][2] if n + 1 < len(seq) else None
            nxt_code = nxt is not None and nxt.kind == "insn"
            k = t.ikind
            if k not in NO_FALLTHROUGH and k != "ret" and nxt_code:
                edges.append((t.id, "Fallthrough", False, True, ("tok", nxt.id)))
            if k in ("jmp", "jcc", "call"):
                tgt = resolve(model, labels, t.target)
                typ = "Call" if k == "call" else "Branch"
                edges.append((t.id, typ, k == "jcc", True, tgt))
                if k == "call" and tgt[0] == "tok":
                    f = tok_func(model, tgt[1])
                    # a call 'targets the function' when it goes to one of
                    # its entries; a call to another block of the function
                    # may or may not be given return edges
                    required = entry_toks is None or tgt[1] in entry_toks
                    lt = labels.get(t.target)
                    if lt is not None and lt[1].toks[lt[2]].origin != "orig":
                        # a call to a label defined by a patch: whether the
                        # enclosing function counts as called is left open
                        required = False
                    if f is not None and nxt_code:
                        calls_by_func.setdefault(f, []).append((nxt.id, required))
                    elif f is not None:
                        calls_by_func.setdefault(f, [])
            elif k == "ijmp":
                edges.append((t.id, "Branch", False, False, ("anon",)))
            elif k == "icall":
                edges.append((t.id, "Call", False, False, ("anon",)))
            elif k == "syscall":
                edges.append((t.id, "Syscall", False, False, ("anon",)))
            elif k == "ret":
                rets.append(t)
    for t in rets:
        sites = calls_by_func.get(t.func) if t.func is not None else None
        req = sorted({s for s, r in sites or [] if r})
        opt = sorted({s for s, r in sites or [] if not r} - set(req))
        for s in req:
            edges.append((t.id, "Return", False, True, ("tok", s)))
        for s in opt:
            edges.append((t.id, "Return?", False, True, ("tok", s)))
        if not req:
            edges.append((t.id, "Return?" if opt else "Return", False, True, ("anon",)))
    return edges


_func_cache = {}


def tok_func(model, tok_id):
    loc = model.find(tok_id)
    if loc is None:
        return None
    s, u, i = loc
    return u.toks[i].func


def resolve(model, labels, name):
    if name in model.proxy_syms or name not in labels:
        return ("sym", name)
    s, u, i = labels[name]
    nb = next_byte_token(model, s, u, i)
    first_pad = None
    while nb is not None and nb[1].origin == "pad":
        # alignment padding is transparent: a label in front of it labels
        # what follows it
        if first_pad is None:
            first_pad = nb[1]
        u2 = nb[0]
        nb = next_byte_token(model, s, u2, u2.toks.index(nb[1]) + 1)
    if nb is None:
        if first_pad is not None:
            # orphaned padding (what it aligned was deleted): nothing follows
            # it, so the label names the padding itself
            return ("tok", first_pad.id)
        return ("end", s)
    return ("tok", nb[1].id)
