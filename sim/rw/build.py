"""Build a real gtirb IR and the listing model from one module descriptor."""

import uuid as _uuid

import gtirb

from . import expect, vocab
from .model import Model, Tok, Unit

SE = gtirb.SymbolicExpression.Attribute

FLAGS = {
    "r": gtirb.Section.Flag.Readable,
    "w": gtirb.Section.Flag.Writable,
    "x": gtirb.Section.Flag.Executable,
}

ISA_MAP = {
    "x64": gtirb.Module.ISA.X64,
    "ia32": gtirb.Module.ISA.IA32,
    "arm64": gtirb.Module.ISA.ARM64,
}


class World:
    """The real IR plus the bookkeeping the driver needs."""

    def __init__(self):
        self.ir = None
        self.module = None
        self.unit_of_interval = {}  # interval uuid -> unit id
        self.desc = None
        self.isa = None
        self.func_ids = {}  # function uuid -> func id of the descriptor
        self.func_uuid = {}


def attrs_for(desc, item_v, role, target_is_extern):
    """Symbolic-expression attributes the way a disassembler would have
    produced them for this ABI (needed by the C18 oracle)."""
    if desc["fmt"] != "elf":
        return set()
    if desc["isa"] == "x64":
        if not target_is_extern:
            return set()
        if item_v in ("call", "jmp", "jmp8", "jcc", "jcc8"):
            return {SE.PLT}
        if item_v == "ldq" and desc.get("pie"):
            return {SE.GOT, SE.PCREL}
        return set()
    if desc["isa"] == "arm64":
        if role == "lo12":
            return {SE.LO12, SE.GOT} if (target_is_extern and desc.get("pie")) else {SE.LO12}
        if item_v == "adrp" and target_is_extern and desc.get("pie"):
            return {SE.GOT}
        return set()
    return set()


def data_item_bytes(desc, item, ptr):
    v = item["v"]
    if v == "bytes":
        return bytes.fromhex(item["hex"]), []
    if v == "zero":
        return b"\x00" * item["n"], []
    if v == "quad":
        return vocab._fill(item["id"], ptr), [(0, ptr, "abs")]
    if v == "diff":
        return vocab._fill(item["id"], 4), [(0, 4, "diff")]
    raise KeyError(v)


def build(desc):
    """-> (World, Model)"""
    isa = vocab.get(desc["isa"])
    w = World()
    w.desc = desc
    w.isa = isa
    fmt = gtirb.Module.FileFormat.ELF if desc["fmt"] == "elf" else gtirb.Module.FileFormat.PE
    ir = gtirb.IR()
    m = gtirb.Module(isa=ISA_MAP[desc["isa"]], file_format=fmt, name="test", byte_order=gtirb.Module.ByteOrder.Little)
    m.ir = ir
    w.ir, w.module = ir, m
    _std_aux(m, desc)

    model = Model()
    model.proxy_syms = set(desc.get("externs", []))
    model.funcs = {fid: dict(f) for fid, f in desc.get("funcs", {}).items()}

    syms = {}
    for name in desc.get("externs", []):
        p = gtirb.ProxyBlock()
        m.proxies.add(p)
        s = gtirb.Symbol(name, payload=p)
        m.symbols.add(s)
        syms[name] = s
        if fmt == gtirb.Module.FileFormat.ELF:
            m.aux_data["elfSymbolInfo"].data[s] = (0, "FUNC", "GLOBAL", "DEFAULT", 0)

    # absolute (integer-valued) symbols: they have no referent block
    model.abs_syms = list(desc.get("abs_syms", []))
    for i, name in enumerate(model.abs_syms):
        s = gtirb.Symbol(name, payload=0x7F000000 + 8 * i)  # far away from every address of the module (gtirb_layout turns address-like integers into block referents)
        m.symbols.add(s)
        syms[name] = s

    blocks = {}  # block id -> gtirb block
    tok_block = {}  # first tok id of block -> block
    pending_sx = []  # (interval, abs offset, size, role, item, target)
    func_blocks = {}
    func_entries = {}
    sizes = m.aux_data["symbolicExpressionSizes"].data
    for sd in desc["sections"]:
        sect = gtirb.Section(name=sd["name"], flags={FLAGS[c] for c in sd["flags"]} | {gtirb.Section.Flag.Loaded, gtirb.Section.Flag.Initialized})
        sect.module = m
        if fmt == gtirb.Module.FileFormat.ELF:
            # SHT_PROGBITS; SHF_ALLOC|SHF_EXECINSTR / SHF_WRITE|SHF_ALLOC
            m.aux_data["sectionProperties"].data[sect] = (1, 6 if "x" in sd["flags"] else 3)
        else:
            # COFF: no type; CNT_CODE|MEM_EXECUTE|MEM_READ / CNT_INITIALIZED_DATA|MEM_READ|MEM_WRITE
            m.aux_data["sectionProperties"].data[sect] = (0, 0x60000020 if "x" in sd["flags"] else 0xC0000040)
        model.sections[sd["name"]] = []
        model.section_order.append(sd["name"])
        for ud in sd["units"]:
            bi = gtirb.ByteInterval(contents=b"", address=ud["addr"])
            bi.section = sect
            unit = Unit(ud["id"])
            model.sections[sd["name"]].append(unit)
            w.unit_of_interval[str(bi.uuid)] = ud["id"]
            lead = ud.get("lead_gap", 0)
            if lead:
                # bytes before the first block, covered by no block
                raise NotImplementedError("lead gaps are only used by the C10 workload")
            for bd in ud["blocks"]:
                cls = gtirb.CodeBlock if bd["kind"] == "code" else gtirb.DataBlock
                if bd.get("gap_before"):
                    # initialized bytes that no block covers (exotic modules)
                    gb = vocab._fill(bd["id"] + "gap", bd["gap_before"])
                    bi.contents += gb
                    bi.size += len(gb)
                    unit.toks.append(Tok("data", bd["id"] + ".gap", b=gb, origin="gap"))
                start = bi.size
                content = b""
                toks = []
                for name in bd.get("labels", []):
                    toks.append(Tok("label", "L:" + name, name=name))
                for item in bd["items"]:
                    if bd["kind"] == "code":
                        b, sx = isa.encode(item)
                        t = Tok("insn", item["id"], b=b, ikind=isa.kind(item), target=item.get("t"), func=bd.get("func"))
                    else:
                        b, sx = data_item_bytes(desc, item, isa.ptr)
                        t = Tok("data", item["id"], b=b, target=item.get("t"))
                    for off, size, role in sx:
                        pending_sx.append((bi, start + len(content) + off, size, role, item, t, off))
                    for (table, rel), val in _item_ann(item):
                        t.ann[(table, rel)] = val
                    content += b
                    toks.append(t)
                for name in bd.get("end_labels", []):
                    toks.append(Tok("label", "L:" + name, name=name, at_end=True))
                blk = cls(offset=start, size=len(content))
                blk.byte_interval = bi
                bi.contents += content
                bi.size += len(content)
                blocks[bd["id"]] = blk
                unit.toks.extend(toks)
                for name in bd.get("labels", []):
                    s = gtirb.Symbol(name, payload=blk)
                    m.symbols.add(s)
                    syms[name] = s
                for name in bd.get("end_labels", []):
                    s = gtirb.Symbol(name, payload=blk, at_end=True)
                    m.symbols.add(s)
                    syms[name] = s
                if bd.get("align"):
                    m.aux_data["alignment"].data[blk] = bd["align"]
                if bd.get("func") and bd["kind"] == "code":
                    func_blocks.setdefault(bd["func"], set()).add(blk)
                    if bd.get("func2"):
                        # a block listed by two functions (a shared tail)
                        func_blocks.setdefault(bd["func2"], set()).add(blk)
                    if bd.get("entry"):
                        func_entries.setdefault(bd["func"], set()).add(blk)
                for k, v in (bd.get("blockaux") or {}).items():
                    m.aux_data[k].data[blk] = v
            for ov in ud.get("overlays", []):
                # a block overlapping existing ones (exotic modules)
                ocls = gtirb.CodeBlock if ov["kind"] == "code" else gtirb.DataBlock
                ob = ocls(offset=min(ov["off"], bi.size), size=max(0, min(ov["size"], bi.size - min(ov["off"], bi.size))))
                ob.byte_interval = bi
                if ov.get("label"):
                    s2 = gtirb.Symbol(ov["label"], payload=ob)
                    m.symbols.add(s2)
            gap = ud.get("tail_uninit", 0)
            if gap:
                init = bi.size
                bi.size += gap
                pos = init
                for n in ud.get("uninit_blocks", []):
                    if pos + n <= bi.size:
                        ub = gtirb.DataBlock(offset=pos, size=n)
                        ub.byte_interval = bi
                        pos += n + ud.get("uninit_gap", 0)

    # symbolic expressions
    externs = set(desc.get("externs", []))
    for bi, off, size, role, item, tok, rel in pending_sx:
        tname = item["t"]
        tsym = syms[tname]
        if role == "diff":
            expr = gtirb.SymAddrAddr(1, item.get("a", 0), tsym, syms[item["t2"]])
            ed = ("diff", tname, item["t2"], item.get("a", 0), (), 1)
        else:
            attrs = attrs_for(desc, item["v"], role, tname in externs)
            expr = gtirb.SymAddrConst(item.get("a", 0), tsym, attrs)
            ed = ("const", tname, None, item.get("a", 0), tuple(sorted(a.name for a in attrs)))
        bi.symbolic_expressions[off] = expr
        sizes[gtirb.Offset(bi, off)] = size
        tok.sx.append((rel, size, ed))

    # functions
    fe = m.aux_data["functionEntries"].data
    fb = m.aux_data["functionBlocks"].data
    fn = m.aux_data["functionNames"].data
    if desc.get("funcs") is not None and not desc.get("no_function_tables"):
        for fid, f in desc["funcs"].items():
            u = _uuid.uuid4()
            w.func_ids[u] = fid
            w.func_uuid[fid] = u
            fb[u] = set(func_blocks.get(fid, ()))
            fe[u] = set(func_entries.get(fid, ()))
            if f.get("nameless"):
                continue
            fn[u] = syms[f["name"]]
            if fmt == gtirb.Module.FileFormat.ELF:
                m.aux_data["elfSymbolInfo"].data[syms[f["name"]]] = (0, "FUNC", "GLOBAL", "DEFAULT", 0)
    else:
        del m.aux_data["functionEntries"], m.aux_data["functionBlocks"], m.aux_data["functionNames"]

    # CFG from the listing rule
    tokloc = {}
    for s, u in model.units():
        for t in u.toks:
            tokloc[t.id] = (s, u)
    first_tok_block = {}
    last_tok_block = {}
    for sd in desc["sections"]:
        for ud in sd["units"]:
            for bd in ud["blocks"]:
                if bd["items"]:
                    first_tok_block[bd["items"][0]["id"]] = blocks[bd["id"]]
                    last_tok_block[bd["items"][-1]["id"]] = blocks[bd["id"]]
    anon = {}
    for src, typ, cond, direct, tgt in expect.expected_edges(model):
        sb = last_tok_block.get(src)
        if sb is None:
            if typ == "Fallthrough":
                continue  # implicit fallthrough inside a block
            raise ValueError(f"terminator {src} is not last in its block")
        if tgt[0] == "tok":
            tb = first_tok_block.get(tgt[1])
            if tb is None:
                raise ValueError(f"edge target {tgt[1]} is not at a block start")
        elif tgt[0] == "sym":
            tb = syms[tgt[1]].referent
        elif tgt[0] == "anon":
            tb = gtirb.ProxyBlock()
            m.proxies.add(tb)
        else:
            raise ValueError(f"edge to the end of a section: {src}")
        ir.cfg.add(gtirb.Edge(sb, tb, gtirb.Edge.Label(getattr(gtirb.Edge.Type, typ), conditional=cond, direct=direct)))

    if desc.get("entry_point"):
        m.entry_point = blocks[desc["entry_point"]]
    if desc.get("safe_seh"):
        m.aux_data["peSafeExceptionHandlers"] = gtirb.AuxData(type_name="set<UUID>", data={blocks[b] for b in desc["safe_seh"]})
    for key, table in (("dt_init", "elfDynamicInit"), ("dt_fini", "elfDynamicFini")):
        if desc.get(key):
            m.aux_data[table] = gtirb.AuxData(type_name="UUID", data=blocks[desc[key]])

    st = desc.get("symtabs") or {}
    if st:
        if fmt == gtirb.Module.FileFormat.ELF:
            info = m.aux_data["elfSymbolInfo"].data
            for name, s_ in syms.items():
                if name not in {x.name for x in info}:
                    if name in st.get("elf_info", []):
                        info[s_] = (0, "OBJECT" if name.startswith("Dt") else "FUNC", "GLOBAL", "DEFAULT", 0)
            idx = m.aux_data["elfSymbolTabIdxInfo"].data
            for name, lst in st.get("tabidx", {}).items():
                idx[syms[name]] = [tuple(x) for x in lst]
            v = st.get("versions")
            if v:
                defs = {int(k): (list(vv[0]), vv[1]) for k, vv in v["defs"].items()}
                reqs = {lib: {int(k): ver for k, ver in d.items()} for lib, d in v["reqs"].items()}
                entries = {syms[n]: (vid, bool(hidden)) for n, (vid, hidden) in v["entries"].items()}
                m.aux_data["elfSymbolVersions"] = gtirb.AuxData(
                    (defs, reqs, entries),
                    "tuple<mapping<uint16_t,tuple<sequence<string>,uint16_t>>,mapping<string,mapping<uint16_t,string>>,mapping<UUID,tuple<uint16_t,bool>>>",
                )
        else:
            m.aux_data["peImportedSymbols"].data.extend(syms[n] for n in st.get("pe_imports", []))
            m.aux_data["peImportEntries"].data.extend((0, -1, n, "lib.dll") for n in st.get("pe_imports", []))
            m.aux_data["peExportedSymbols"].data.extend(syms[n] for n in st.get("pe_exports", []))
            m.aux_data["peExportEntries"].data.extend((0, -1, n) for n in st.get("pe_exports", []))
    for a, b in desc.get("symbol_forwarding", []):
        m.aux_data["symbolForwarding"].data[syms[a]] = syms[b]
    _extra_aux(w, model, desc, blocks, syms)
    w.blocks = blocks
    w.syms = syms
    return w, model


def _item_ann(item):
    for k, v in (item.get("ann") or {}).items():
        table, rel = k.split("@")
        yield (table, int(rel)), v


def _std_aux(m, desc):
    def add(name, typ, data):
        m.aux_data[name] = gtirb.AuxData(type_name=typ, data=data)

    add("binaryType", "sequence<string>", ["DYN"] if desc.get("pie") else ["EXEC"])
    add("cfiDirectives", "mapping<Offset,sequence<tuple<string,sequence<int64_t>,UUID>>>", {})
    add("comments", "mapping<Offset,string>", {})
    add("sectionProperties", "mapping<UUID,tuple<uint64_t,uint64_t>>", {})
    add("encodings", "mapping<UUID,string>", {})
    add("functionBlocks", "mapping<UUID,set<UUID>>", {})
    add("functionEntries", "mapping<UUID,set<UUID>>", {})
    add("functionNames", "mapping<UUID,UUID>", {})
    add("libraries", "sequence<string>", [])
    add("libraryPaths", "sequence<string>", [])
    add("padding", "mapping<Offset,uint64_t>", {})
    add("symbolForwarding", "mapping<UUID,UUID>", {})
    add("symbolicExpressionSizes", "mapping<Offset,uint64_t>", {})
    add("SCCs", "mapping<UUID,int64_t>", {})
    add("types", "mapping<UUID,string>", {})
    add("profile", "mapping<UUID,uint64_t>", {})
    if desc["fmt"] == "elf":
        if desc.get("alignment_table", True):
            add("alignment", "mapping<UUID,uint64_t>", {})
        add("elfSymbolInfo", "mapping<UUID,tuple<uint64_t,string,string,string,uint64_t>>", {})
        add("elfSymbolTabIdxInfo", "mapping<UUID,sequence<tuple<string,uint64_t>>>", {})
    else:
        if desc.get("alignment_table"):
            add("alignment", "mapping<UUID,uint64_t>", {})
        add("peExportEntries", "sequence<tuple<uint64_t,int64_t,string>>", [])
        add("peExportedSymbols", "sequence<UUID>", [])
        add("peImportEntries", "sequence<tuple<uint64_t,int64_t,string,string>>", [])
        add("peImportedSymbols", "sequence<UUID>", [])
        add("peSafeExceptionHandlers", "set<UUID>", set())


def _extra_aux(w, model, desc, blocks, syms):
    """Annotations keyed by Offset(block|interval, displacement) and CFI."""
    m = w.module
    for sd in desc["sections"]:
        for ud in sd["units"]:
            for bd in ud["blocks"]:
                blk = blocks[bd["id"]]
                off = 0
                for item in bd["items"]:
                    for (table, rel), val in _item_ann(item):
                        tname, keying = table.split("/")
                        if keying == "b":
                            key = gtirb.Offset(blk, off + rel)
                        else:
                            key = gtirb.Offset(blk.byte_interval, blk.offset + off + rel)
                        m.aux_data[tname].data[key] = val
                    b, _ = (w.isa.encode(item) if bd["kind"] == "code" else data_item_bytes(desc, item, w.isa.ptr))
                    off += len(b)
                for k, dirs in (bd.get("cfi") or {}).items():
                    lst = []
                    for d in dirs:
                        sym = syms[d[2]] if d[2] else _NULL
                        lst.append((d[0], list(d[1]), sym))
                    m.aux_data["cfiDirectives"].data[gtirb.Offset(blk, int(k))] = lst


_NULL = _uuid.UUID("00000000-0000-0000-0000-000000000000")
