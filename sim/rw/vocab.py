"""Instruction vocabulary.

Original-module instructions are encoded here by hand (independent of the
library's assembler); patch instructions are emitted as assembly text for the
library to assemble.  Kinds: plain, jmp, jcc, call, ret, ijmp, icall.
"""

import struct

REGS64 = ["rax", "rcx", "rdx", "rbx", "rbp", "rsi", "rdi"]
REGS64_IDX = {"rax": 0, "rcx": 1, "rdx": 2, "rbx": 3, "rbp": 5, "rsi": 6, "rdi": 7}
REGS32 = {"rax": "eax", "rcx": "ecx", "rdx": "edx", "rbx": "ebx", "rbp": "ebp", "rsi": "esi", "rdi": "edi"}

TERMINATORS = ("jmp", "jcc", "call", "ret", "ijmp", "icall", "syscall")
NO_FALLTHROUGH = ("jmp", "ret", "ijmp")


def _fill(item_id: str, n: int) -> bytes:
    """Distinctive filler for bytes that lie under a symbolic expression."""
    import hashlib

    return hashlib.md5(item_id.encode()).digest()[:n]


class X86:
    """x86-64 and IA32 (the subset used is encoded identically except for
    REX prefixes and rip-relative forms, which IA32 avoids)."""

    def __init__(self, bits):
        self.bits = bits
        self.name = "x64" if bits == 64 else "ia32"
        self.nop = b"\x90"
        self.ptr = bits // 8

    # kind of each vocabulary entry
    KINDS = {
        "nop": "plain", "push": "plain", "pop": "plain", "movi": "plain",
        "xor": "plain", "nop5": "plain", "lea": "plain", "ldq": "plain",
        "inc": "plain", "cmpmi": "plain", "jmp": "jmp", "jmp8": "jmp", "jcc": "jcc", "jcc8": "jcc",
        "call": "call", "ret": "ret", "ijmp": "ijmp", "icall": "icall",
        "syscall": "syscall",
    }

    def kind(self, item):
        return self.KINDS[item["v"]]

    def encode(self, item):
        """-> (bytes, [ (offset, size, role) ]) where role is 'pcrel' or
        'abs'; the symbolic operand refers to item['t'] (+ item['a'])."""
        v = item["v"]
        r = REGS64_IDX.get(item.get("r", "rax"), 0)
        iid = item["id"]
        if v == "nop":
            return b"\x90", []
        if v == "nop5":
            return b"\x0f\x1f\x44\x00\x00", []
        if v == "push":
            return bytes([0x50 + r]), []
        if v == "pop":
            return bytes([0x58 + r]), []
        if v == "movi":
            return bytes([0xB8 + r]) + struct.pack("<I", item["imm"] & 0xFFFFFFFF), []
        if v == "xor":
            return b"\x31\xc0", []
        if v == "inc":
            if self.bits == 64:
                return b"\x48\xff\xc0", []
            return b"\xff\xc0", []
        if v == "lea":
            if self.bits == 64:
                return b"\x48\x8d\x05" + _fill(iid, 4), [(3, 4, "pcrel")]
            return b"\x8d\x05" + _fill(iid, 4), [(2, 4, "abs")]
        if v == "ldq":
            if self.bits == 64:
                return b"\x48\x8b\x05" + _fill(iid, 4), [(3, 4, "pcrel")]
            return b"\x8b\x05" + _fill(iid, 4), [(2, 4, "abs")]
        if v == "cmpmi":
            # cmpl $imm8, t(%rip) / cmpl $imm8, t : a symbolic operand that is
            # NOT the last field of the instruction
            return b"\x83\x3d" + _fill(iid, 4) + bytes([item.get("imm", 1) & 0x7F]), [(2, 4, "pcrel" if self.bits == 64 else "abs")]
        if v == "jmp":
            return b"\xe9" + _fill(iid, 4), [(1, 4, "pcrel")]
        if v == "jmp8":
            return b"\xeb" + _fill(iid, 1), [(1, 1, "pcrel")]
        if v == "jcc":
            return b"\x0f\x84" + _fill(iid, 4), [(2, 4, "pcrel")]
        if v == "jcc8":
            return b"\x74" + _fill(iid, 1), [(1, 1, "pcrel")]
        if v == "call":
            return b"\xe8" + _fill(iid, 4), [(1, 4, "pcrel")]
        if v == "ret":
            return b"\xc3", []
        if v == "ijmp":
            return b"\xff\xe0", []
        if v == "icall":
            return b"\xff\xd0", []
        if v == "syscall":
            # (only in original modules: ends its block with a Syscall edge
            # to an unknown target plus the fallthrough)
            return (b"\x0f\x05" if self.bits == 64 else b"\xcd\x80"), []
        raise KeyError(v)

    def asm(self, item, ctx=None):
        """AT&T text for a patch line.  ``t`` names a label; labels in
        item['tl'] (temporary labels) get the platform temp prefix."""
        v = item["v"]
        reg = item.get("r", "rax")
        r64 = "%" + reg if self.bits == 64 else "%" + REGS32[reg]
        t = item.get("t")
        if v == "nop":
            return "nop"
        if v == "nop5":
            return "nopl 0(%eax,%eax,1)" if self.bits == 32 else "nopl 0(%rax,%rax,1)"
        if v == "push":
            return f"push {r64}"
        if v == "pop":
            return f"pop {r64}"
        if v == "movi":
            return f"movl ${item['imm']:#x}, %{REGS32[reg]}"
        if v == "xor":
            return "xorl %eax, %eax"
        if v == "inc":
            return "incq %rax" if self.bits == 64 else "incl %eax"
        if v == "lea":
            return f"leaq {t}(%rip), %rax" if self.bits == 64 else f"leal {t}, %eax"
        if v == "ldq":
            return f"movq {t}(%rip), %rax" if self.bits == 64 else f"movl {t}, %eax"
        if v == "cmpmi":
            return f"cmpl ${item.get('imm', 1) & 0x7F}, {t}(%rip)" if self.bits == 64 else f"cmpl ${item.get('imm', 1) & 0x7F}, {t}"
        if v in ("jmp", "jmp8"):
            return f"jmp {t}"
        if v in ("jcc", "jcc8"):
            return f"je {t}"
        if v == "call":
            return f"call {t}"
        if v == "ret":
            return "ret"
        if v == "ijmp":
            return "jmp *%rax" if self.bits == 64 else "jmp *%eax"
        if v == "icall":
            return "call *%rax" if self.bits == 64 else "call *%eax"
        raise KeyError(v)

    def cs(self):
        import capstone

        md = capstone.Cs(capstone.CS_ARCH_X86, capstone.CS_MODE_64 if self.bits == 64 else capstone.CS_MODE_32)
        md.detail = True
        return md

    def cs_kind(self, insn):
        import capstone
        from capstone import x86_const as xc

        g = set(insn.groups)
        if capstone.CS_GRP_RET in g:
            return "ret"
        if capstone.CS_GRP_INT in g:
            return "syscall"
        if capstone.CS_GRP_CALL in g:
            op = insn.operands[0]
            return "call" if op.type == xc.X86_OP_IMM else "icall"
        if capstone.CS_GRP_JUMP in g:
            op = insn.operands[0]
            if op.type != xc.X86_OP_IMM:
                return "ijmp"
            return "jmp" if insn.id == xc.X86_INS_JMP else "jcc"
        return "plain"


class ARM64:
    name = "arm64"
    nop = bytes.fromhex("1f2003d5")
    ptr = 8
    bits = 64
    KINDS = {
        "nop": "plain", "movi": "plain", "adrp": "plain", "addlo": "plain",
        "jmp": "jmp", "jcc": "jcc", "call": "call", "ret": "ret",
        "ijmp": "ijmp", "icall": "icall",
    }

    def kind(self, item):
        return self.KINDS[item["v"]]

    def encode(self, item):
        v = item["v"]

        def w(x):
            return struct.pack("<I", x)

        if v == "nop":
            # (the program's own 'do nothing' instruction is mov x1, x1: a
            # real nop could not be told apart from 4-byte nop padding)
            return w(0xAA0103E1), []
        if v == "movi":
            # movz w0, #imm16
            return w(0x52800000 | ((item["imm"] & 0xFFFF) << 5)), []
        if v == "adrp":
            return w(0x90000000), [(0, 4, "pcrel")]
        if v == "addlo":
            return w(0x91000000), [(0, 4, "lo12")]
        if v == "jmp":
            return w(0x14000000), [(0, 4, "pcrel")]
        if v == "jcc":
            return w(0x54000000), [(0, 4, "pcrel")]
        if v == "call":
            return w(0x94000000), [(0, 4, "pcrel")]
        if v == "ret":
            return w(0xD65F03C0), []
        if v == "ijmp":
            return w(0xD61F0000), []
        if v == "icall":
            return w(0xD63F0000), []
        raise KeyError(v)

    def asm(self, item, ctx=None):
        v = item["v"]
        t = item.get("t")
        if v == "nop":
            return "mov x1, x1"
        if v == "movi":
            return f"mov w0, #{item['imm'] & 0xFFFF:#x}"
        if v == "adrp":
            return f"adrp x0, {t}"
        if v == "addlo":
            if item.get("a"):
                return f"add x0, x0, :lo12:{t}+{item['a']}"
            return f"add x0, x0, :lo12:{t}"
        if v == "jmp":
            return f"b {t}"
        if v == "jcc":
            return f"b.eq {t}"
        if v == "call":
            return f"bl {t}"
        if v == "ret":
            return "ret"
        if v == "ijmp":
            return "br x0"
        if v == "icall":
            return "blr x0"
        raise KeyError(v)

    def cs(self):
        import capstone

        md = capstone.Cs(capstone.CS_ARCH_ARM64, capstone.CS_MODE_ARM)
        md.detail = True
        return md

    def cs_kind(self, insn):
        import capstone
        from capstone import arm64_const as ac

        g = set(insn.groups)
        if insn.id == ac.ARM64_INS_RET:
            return "ret"
        if insn.id == ac.ARM64_INS_BL:
            return "call"
        if insn.id == ac.ARM64_INS_BLR:
            return "icall"
        if insn.id == ac.ARM64_INS_BR:
            return "ijmp"
        if insn.id == ac.ARM64_INS_B:
            return "jcc" if insn.cc not in (ac.ARM64_CC_INVALID, ac.ARM64_CC_AL, ac.ARM64_CC_NV) else "jmp"
        if capstone.CS_GRP_JUMP in g:
            return "jcc"
        return "plain"


_ISAS = {}


def get(name):
    if name not in _ISAS:
        if name == "x64":
            _ISAS[name] = X86(64)
        elif name == "ia32":
            _ISAS[name] = X86(32)
        elif name == "arm64":
            _ISAS[name] = ARM64()
        else:
            raise KeyError(name)
    return _ISAS[name]
