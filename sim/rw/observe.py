"""Read-only observation of the real IR after (or during) a session, and the
alignment between model units and real byte intervals."""

import gtirb

from .. import core
from .driver import block_kind, sorted_blocks, sorted_intervals


class IntervalObs:
    __slots__ = ("uuid", "unit", "addr", "size", "init", "data", "blocks", "bi")


class Obs:
    def __init__(self, world, model):
        self.world = world
        m = world.module
        self.sections = {}
        self.reordered = False
        self.pad_notes = []
        self.pre_blocks = getattr(world, "last_pre_blocks", None)
        self.align = {}
        at = m.aux_data.get("alignment")
        if at is not None:
            for n, a in at.data.items():
                self.align[n.uuid] = a
        for sect in m.sections:
            lst = []
            for bi in sorted_intervals(sect):
                o = IntervalObs()
                o.bi = bi
                o.uuid = str(bi.uuid)
                o.unit = world.unit_of_interval.get(o.uuid)
                o.addr = bi.address
                o.size = bi.size
                o.init = bi.initialized_size
                o.data = bytes(bi.contents)
                o.blocks = [(b, b.offset, b.size, block_kind(b)) for b in sorted_blocks(bi)]
                lst.append(o)
            self.sections[sect.name] = lst


def adopt_new_units(world, model, obs, prop):
    """Match intervals created by the session to the model's new units by
    content; record the mapping for later sessions."""
    for sname, lst in obs.sections.items():
        unknown = [o for o in lst if o.unit is None]
        if not unknown:
            continue
        cands = [u for (s, u) in model.new_units if s == sname and not getattr(u, "adopted", False)]
        import gtirb as _g

        names_in = {}
        for sym in world.module.symbols:
            r = sym.referent
            if isinstance(r, _g.ByteBlock) and r.byte_interval is not None:
                names_in.setdefault(str(r.byte_interval.uuid), set()).add(sym.name)
        for o in unknown:
            hit = None
            best = -1
            for u in cands:
                if u.bytes() == o.data and not getattr(u, "adopted", False):
                    # identical bytes (e.g. two inserted functions that only
                    # differ in a symbolic operand): tell them apart by the
                    # labels they carry
                    score = len({t.name for t in u.toks if t.kind == "label"} & names_in.get(o.uuid, set()))
                    if score > best:
                        hit, best = u, score
            if hit is None:
                raise core.Violation(
                    "C01",
                    "byte-mismatch",
                    {"what": "new byte interval matches no expected new unit", "section": sname, "bytes": o.data.hex()[:200]},
                    {"where": "new-unit"},
                )
            hit.adopted = True
            o.unit = hit.id
            world.unit_of_interval[o.uuid] = hit.id
    for s, u in model.new_units:
        if not getattr(u, "adopted", False) and u.bytes():
            raise core.Violation(
                "C01", "patch-missing", {"what": "expected new unit has no byte interval", "section": s, "bytes": u.bytes().hex()[:200]}, {"where": "new-unit"}
            )
    # A label at the edge of a unit denotes the same listing position as
    # the adjacent edge of the neighbouring unit.  Keep it in the unit whose
    # block the implementation attached it to, before units may change
    # places (layout may reorder byte intervals).
    import gtirb

    home = {}
    dup = set()
    for sym in world.module.symbols:
        r = sym.referent
        if sym.name in home:
            dup.add(sym.name)
        if isinstance(r, gtirb.ByteBlock) and r.byte_interval is not None:
            home[sym.name] = world.unit_of_interval.get(str(r.byte_interval.uuid))
    for sname in model.section_order:
        units = model.sections[sname]
        for i, u in enumerate(units):
            if not u.toks:
                continue
            first_b = next((k for k, t in enumerate(u.toks) if t.is_bytes()), None)
            last_b = next((k for k in range(len(u.toks) - 1, -1, -1) if u.toks[k].is_bytes()), None)
            lead = u.toks[: first_b if first_b is not None else len(u.toks)]
            trail = u.toks[last_b + 1 :] if last_b is not None else []
            prev = next((x for x in reversed(units[:i]) if x.bytes()), None)
            nxt = next((x for x in units[i + 1 :] if x.bytes()), None)
            for t in list(trail if last_b is not None else lead):
                if t.kind == "entry" and last_b is not None and nxt is not None:
                    # an entry marker at the end of a unit marks the block
                    # that starts the next one
                    u.toks.remove(t)
                    k = 0
                    while k < len(nxt.toks) and not nxt.toks[k].is_bytes():
                        k += 1
                    nxt.toks.insert(k, t)
                    continue
                if t.kind != "label" or t.name in dup:
                    continue
                h = home.get(t.name)
                if h is None or h == u.id:
                    continue
                if nxt is not None and h == nxt.id:
                    u.toks.remove(t)
                    k = 0
                    while k < len(nxt.toks) and nxt.toks[k].kind == "label" and nxt.toks[k] is not t:
                        k += 1
                    nxt.toks.insert(0, t)
                elif prev is not None and h == prev.id and last_b is None:
                    u.toks.remove(t)
                    prev.toks.append(t)
    for sname in model.section_order:
        units = model.sections[sname]
        for i, u in enumerate(units):
            if u.bytes() or not u.toks:
                continue
            prev = next((x for x in reversed(units[:i]) if x.bytes()), None)
            nxt = next((x for x in units[i + 1 :] if x.bytes()), None)
            # entry markers and deletion marks belong to what follows
            fwd = [t for t in u.toks if t.kind in ("entry", "pmark")]
            rest = [t for t in u.toks if t.kind not in ("entry", "pmark")]
            if nxt is not None:
                nxt.toks[0:0] = fwd
            elif prev is not None:
                prev.toks.extend(fwd)
            if prev is not None:
                prev.toks.extend(rest)
                u.toks = []
            elif nxt is not None:
                nxt.toks[0:0] = rest
                u.toks = []
            else:
                u.toks = rest + fwd
    # the order of the sections themselves (layout_module iterates a set)
    sec_order = [name for _, name in sorted((min((o.addr for o in lst if o.addr is not None), default=1 << 62), name) for name, lst in obs.sections.items() if lst)]
    prev = getattr(model, "section_addr_order", None)
    if prev is not None and [n for n in prev if n in sec_order] != [n for n in sec_order if n in prev]:
        model.reordered_ever = True
    model.section_addr_order = sec_order
    if getattr(model, "reordered_ever", False):
        obs.reordered = True
    # The order of the non-empty units of a section must equal the real
    # address order (bytes must not be reordered).  A difference is noted
    # and judged last, so that it cannot mask anything else; the model
    # follows the real order from here on.
    deferred = []
    for sname, lst in obs.sections.items():
        if sname not in model.sections:
            continue
        rank = {o.unit: i for i, o in enumerate(lst)}
        units = model.sections[sname]
        nonempty_old = [u.id for u in units if not u.new and u.bytes()]
        real_order = [o.unit for o in lst if o.data and o.unit in set(nonempty_old)]
        if nonempty_old != real_order:
            deferred.append(
                core.Violation(
                    "C01",
                    "byte-mismatch",
                    {"what": "byte intervals of a section were reordered", "section": sname, "model_order": nonempty_old, "real_order": real_order},
                    {"where": "unit-order"},
                )
            )
        all_old = [u.id for u in units if not u.new and u.id in rank]
        if all_old != [o.unit for o in lst if o.unit in set(all_old)]:
            obs.reordered = True
            model.reordered_ever = True
        units.sort(key=lambda u: rank.get(u.id, 1 << 30))
    return deferred


def match_unit(world, unit, o, obs):
    """Strict padding rules first (minimal padding that leaves the next
    block aligned); only if that fails, padding that was computed for the
    pre-layout address (judged by C10)."""
    # first: padding only directly in front of the block whose alignment it
    # serves (three nops in a row - program, patch, padding - are otherwise
    # interchangeable)
    res, err = _match_unit(world, unit, o, obs, "adjacent")
    if res is None:
        res, err = _match_unit(world, unit, o, obs, True)
    if res is None:
        # ... still preferring padding that is a block of its own
        res, err = _match_unit(world, unit, o, obs, "own-block")
    if res is None:
        res, err = _match_unit(world, unit, o, obs, False)
    return res, err


def _match_unit(world, unit, o, obs, strict):
    """Match the model's bytes against the real interval, accepting only
    validated alignment padding (backtracking, because a nop token and nop
    padding look alike).  Returns ((posmap, pads), None) or (None, err)."""
    nop = world.isa.nop
    data = o.data
    toks = unit.toks
    n = len(toks)
    dead = set()
    best = {"r": -1, "err": None}
    import sys

    sys.setrecursionlimit(max(10000, sys.getrecursionlimit()))

    def prev_kind(i):
        for t in reversed(toks[:i]):
            if t.is_bytes():
                return t.kind
        return None

    def go(i, r):
        """-> (posmap list for toks[i:], pads) or None"""
        if (i, r) in dead:
            return None
        if i == n:
            if r == len(data):
                return [r], []
            tail = data[r:]
            if (_is_pad(tail, prev_kind(i), nop) or _is_pad(tail, _real_prev_kind(o, r), nop)) and _pad_ok(world, o, obs, r, len(tail), final=True, strict=strict):
                return [r], [(r, len(tail))]
            if r > best["r"]:
                best["r"], best["err"] = r, {"at_real_offset": r, "token": None, "expected": "", "found": tail[:16].hex(), "what": "trailing bytes"}
            dead.add((i, r))
            return None
        t = toks[i]
        if not t.is_bytes():
            res = go(i + 1, r)
            if res is None:
                dead.add((i, r))
                return None
            return [r] + res[0], res[1]
        if data[r : r + len(t.b)] == t.b:
            res = go(i + 1, r + len(t.b))
            if res is not None:
                return [r] + res[0], res[1]
        elif r > best["r"]:
            best["r"], best["err"] = r, {"at_real_offset": r, "token": t.id, "expected": t.b.hex(), "found": data[r : r + max(len(t.b), 8)].hex()}
        pk = prev_kind(i)
        for p in range(1, 65):
            if data[r + p : r + p + len(t.b)] != t.b:
                continue
            if not (_is_pad(data[r : r + p], pk, nop) or _is_pad(data[r : r + p], _real_prev_kind(o, r), nop)):
                continue
            if not _pad_ok(world, o, obs, r, p, strict=strict):
                continue
            res = go(i + 1, r + p + len(t.b))
            if res is not None:
                return [r + p] + res[0], [(r, p)] + res[1]
        dead.add((i, r))
        return None

    res = go(0, 0)
    if res is None:
        return None, best["err"] or {"at_real_offset": 0, "token": None, "what": "no match"}
    posmap, pads = res
    # labels directly before a padded token: keep them before the padding
    # (C02 accepts either side)
    return (posmap, pads), None


def _has_edges(b):
    """The library's padding block takes no part in the CFG (a fallthrough
    into the aligned block skips it); a patch's own nop does."""
    import gtirb

    if not isinstance(b, gtirb.CodeBlock):
        return False
    return any(True for _ in b.outgoing_edges) or any(True for _ in b.incoming_edges)


def _pad_ok(world, o, obs, r, p, final=False, strict=True):
    """Padding must end where a block with an alignment requirement starts,
    be shorter than that alignment, leave that block aligned, and be
    covered by a block."""
    covered = any(off <= r and r + p <= off + size for (b, off, size, kind) in o.blocks)
    if not covered:
        return False
    if strict and not any(
        off == r and size == p and obs.align.get(b.uuid, 1) <= 1 and (obs.pre_blocks is None or b.uuid not in obs.pre_blocks) and not any(True for _ in b.references) and not _has_edges(b)
        for (b, off, size, kind) in o.blocks
    ):
        # the library covers padding with a fresh block of its own (which
        # carries no alignment requirement itself; padding of an earlier
        # session is part of the listing by now and is not 'fresh')
        return False
    if strict == "own-block":
        strict = False
    if final:
        # padding at the very end of an interval: uninitialized bytes that
        # were made explicit; nothing follows inside this interval
        return True
    if not any(off == r + p for (b, off, size, kind) in o.blocks):
        return False
    # join_byte_intervals pads in front of the (temporary) interval that
    # holds the first block with an alignment requirement, so the aligned
    # block may start later than the end of the padding
    later = [(off, obs.align.get(b.uuid, 1)) for (b, off, size, kind) in o.blocks if off >= r + p and obs.align.get(b.uuid, 1) > 1]
    if not later:
        return False
    at_end = [a for off, a in later if off == r + p]
    al = max(at_end) if at_end else max(a for _, a in later)
    if al <= 1:
        return False
    if not at_end:
        if strict == "adjacent":
            return False
        # cannot re-derive the address arithmetic of the join: only the
        # size bound applies
        return p < al
    # Padding is computed when the intervals are re-joined, before a
    # possible re-layout moves the interval; whether it is minimal and still
    # leaves the block aligned afterwards is judged by C10, not here.
    if p >= al or (o.addr is not None and (o.addr + r + p) % al):
        if strict:
            return False
        obs.pad_notes.append({"unit": o.unit, "offset": r, "length": p, "alignment": al, "address": None if o.addr is None else o.addr + r + p})
    return True


def _real_prev_kind(o, r):
    """kind of the real block that ends at offset r (zero-sized blocks
    count: padding after a kept zero-sized code block is made of nops)"""
    kinds = [kind for (b, off, size, kind) in o.blocks if off + size == r and not (off == r and size and False)]
    ended = [kind for (b, off, size, kind) in o.blocks if off + size == r and off <= r]
    if "code" in ended:
        return "insn"
    if "data" in ended:
        return "data"
    return None


def _is_pad(run, prev_kind, nop):
    if not run:
        return False
    if prev_kind == "insn":
        return len(run) % len(nop) == 0 and run == nop * (len(run) // len(nop))
    return run == b"\x00" * len(run)


