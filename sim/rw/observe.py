"""Read-only observation of the real IR after (or during) a session, and the
alignment between model units and real byte intervals."""

import gtirb

from .. import core
from .driver import block_kind, sorted_blocks, sorted_intervals


class IntervalObs:
    __slots__ = ("uuid", "unit", "addr", "size", "init", "data", "blocks", "bi")


class Obs:
    def __init__(self, world, model):
        self.world = world
        m = world.module
        self.sections = {}
        self.align = {}
        at = m.aux_data.get("alignment")
        if at is not None:
            for n, a in at.data.items():
                self.align[n.uuid] = a
        for sect in m.sections:
            lst = []
            for bi in sorted_intervals(sect):
                o = IntervalObs()
                o.bi = bi
                o.uuid = str(bi.uuid)
                o.unit = world.unit_of_interval.get(o.uuid)
                o.addr = bi.address
                o.size = bi.size
                o.init = bi.initialized_size
                o.data = bytes(bi.contents)
                o.blocks = [(b, b.offset, b.size, block_kind(b)) for b in sorted_blocks(bi)]
                lst.append(o)
            self.sections[sect.name] = lst


def adopt_new_units(world, model, obs, prop):
    """Match intervals created by the session to the model's new units by
    content; record the mapping for later sessions."""
    for sname, lst in obs.sections.items():
        unknown = [o for o in lst if o.unit is None]
        if not unknown:
            continue
        cands = [u for (s, u) in model.new_units if s == sname and not getattr(u, "adopted", False)]
        for o in unknown:
            hit = None
            for u in cands:
                if u.bytes() == o.data and not getattr(u, "adopted", False):
                    hit = u
                    break
            if hit is None:
                raise core.Violation(
                    "C01",
                    "byte-mismatch",
                    {"what": "new byte interval matches no expected new unit", "section": sname, "bytes": o.data.hex()[:200]},
                    {"where": "new-unit"},
                )
            hit.adopted = True
            o.unit = hit.id
            world.unit_of_interval[o.uuid] = hit.id
    for s, u in model.new_units:
        if not getattr(u, "adopted", False) and u.bytes():
            raise core.Violation(
                "C01", "patch-missing", {"what": "expected new unit has no byte interval", "section": s, "bytes": u.bytes().hex()[:200]}, {"where": "new-unit"}
            )
    # keep the model's unit order equal to the real address order
    for sname, lst in obs.sections.items():
        if sname not in model.sections:
            continue
        rank = {o.unit: i for i, o in enumerate(lst)}
        model.sections[sname].sort(key=lambda u: rank.get(u.id, 1 << 30))


def match_unit(world, unit, o, obs):
    """Match the model's bytes against the real interval, accepting only
    validated alignment padding (backtracking, because a nop token and nop
    padding look alike).  Returns ((posmap, pads), None) or (None, err)."""
    nop = world.isa.nop
    data = o.data
    toks = unit.toks
    n = len(toks)
    dead = set()
    best = {"r": -1, "err": None}
    import sys

    sys.setrecursionlimit(max(10000, sys.getrecursionlimit()))

    def prev_kind(i):
        for t in reversed(toks[:i]):
            if t.is_bytes():
                return t.kind
        return None

    def go(i, r):
        """-> (posmap list for toks[i:], pads) or None"""
        if (i, r) in dead:
            return None
        if i == n:
            if r == len(data):
                return [r], []
            tail = data[r:]
            if _is_pad(tail, prev_kind(i), nop) and _pad_ok(world, o, obs, r, len(tail), final=True):
                return [r], [(r, len(tail))]
            if r > best["r"]:
                best["r"], best["err"] = r, {"at_real_offset": r, "token": None, "expected": "", "found": tail[:16].hex(), "what": "trailing bytes"}
            dead.add((i, r))
            return None
        t = toks[i]
        if not t.is_bytes():
            res = go(i + 1, r)
            if res is None:
                dead.add((i, r))
                return None
            return [r] + res[0], res[1]
        if data[r : r + len(t.b)] == t.b:
            res = go(i + 1, r + len(t.b))
            if res is not None:
                return [r] + res[0], res[1]
        elif r > best["r"]:
            best["r"], best["err"] = r, {"at_real_offset": r, "token": t.id, "expected": t.b.hex(), "found": data[r : r + max(len(t.b), 8)].hex()}
        pk = prev_kind(i)
        for p in range(1, 65):
            if data[r + p : r + p + len(t.b)] != t.b:
                continue
            if not _is_pad(data[r : r + p], pk, nop):
                continue
            if not _pad_ok(world, o, obs, r, p):
                continue
            res = go(i + 1, r + p + len(t.b))
            if res is not None:
                return [r + p] + res[0], [(r, p)] + res[1]
        dead.add((i, r))
        return None

    res = go(0, 0)
    if res is None:
        return None, best["err"] or {"at_real_offset": 0, "token": None, "what": "no match"}
    posmap, pads = res
    # labels directly before a padded token: keep them before the padding
    # (C02 accepts either side)
    return (posmap, pads), None


def _pad_ok(world, o, obs, r, p, final=False):
    """Padding must end where a block with an alignment requirement starts,
    be shorter than that alignment, leave that block aligned, and be
    covered by a block."""
    covered = any(off <= r and r + p <= off + size for (b, off, size, kind) in o.blocks)
    if not covered:
        return False
    if final:
        # padding at the very end of an interval: uninitialized bytes that
        # were made explicit; nothing follows inside this interval
        return True
    nxt = [b for (b, off, size, kind) in o.blocks if off == r + p]
    al = max((obs.align.get(b.uuid, 1) for b in nxt), default=1)
    if al <= 1 or p >= al:
        return False
    if o.addr is not None and (o.addr + r + p) % al:
        return False
    return True


def _is_pad(run, prev_kind, nop):
    if not run:
        return False
    if prev_kind == "insn":
        return len(run) % len(nop) == 0 and run == nop * (len(run) // len(nop))
    return run == b"\x00" * len(run)


