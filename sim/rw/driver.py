"""Drive the real library through one scenario under the seams, keep the
listing model in step, and hand observations to the oracles."""

import contextlib
import logging

import gtirb
import gtirb_functions

import gtirb_rewriting
import gtirb_rewriting.rewriting as rw_mod
from gtirb_rewriting import Constraints, Patch

from .. import core
from . import vocab
from .model import ModelMismatch, Tok


class InjectedFault(Exception):
    """Raised by a simulated user callback (fault injection)."""


# --------------------------------------------------------------------------
# instrumented patch


class SimPatch(Patch):
    def __init__(self, sess, op_index, pdesc):
        c = pdesc.get("constraints") or {}
        cons = Constraints(
            clobbers_flags=bool(c.get("flags")),
            clobbers_registers=set(c.get("clobbers", [])),
            scratch_registers=int(c.get("scratch", 0)),
            reads_registers=set(c.get("reads", [])),
            align_stack=bool(c.get("align_stack")),
            preserve_caller_saved_registers=bool(c.get("caller_saved")),
        )
        super().__init__(cons)
        self.sess = sess
        self.op_index = op_index
        self.pdesc = pdesc
        self.invocations = 0

    def __str__(self):
        return f"SimPatch#{self.op_index}"

    def get_asm(self, ctx):
        sess = self.sess
        sess.callback_count += 1
        k = sess.callback_count
        self.invocations += 1
        inv = self.invocations
        sess.contexts.append(
            {
                "op": self.op_index,
                "inv": inv,
                "k": k,
                "block": str(ctx.block.uuid),
                "offset": ctx.offset,
                "func": str(ctx.function.uuid) if ctx.function else None,
                "stack_adjustment": ctx.stack_adjustment,
                "scratch": [r.name for r in ctx.scratch_registers],
            }
        )
        fault = sess.fault_at(k)
        if fault == "raise":
            sess.fired["callback-raise"] += 1
            raise InjectedFault(f"fault injected at callback {k}")
        if fault == "none":
            sess.fired["callback-none"] += 1
            return None
        if fault == "empty":
            sess.fired["callback-empty"] += 1
            return ""
        if fault == "syntax":
            sess.fired["callback-syntax"] += 1
            return "nop\nthis is not assembly !!\n"
        if fault == "undef":
            sess.fired["callback-undef"] += 1
            return sess.world.isa.asm({"v": "jmp", "t": "no_such_symbol_anywhere"}) + "\n"
        if fault == "redef" and sess.world.syms:
            # (a module without any symbol has no name to redefine)
            sess.fired["callback-redef"] += 1
            return sess.redef_text()
        mids = sess.desc.get("marker_ids")
        return render_patch(sess.world, self.pdesc, ctx, mids[self.op_index] if mids else self.op_index, inv)


def render_patch(world, pdesc, ctx, op_index, inv):
    isa = world.isa
    lines = []
    prefix = ctx.temporary_label("") if ctx is not None else ".L"
    for ln in pdesc["lines"]:
        if "label" in ln:
            nm = (prefix + ln["label"]) if ln.get("temp") else ln["label"]
            lines.append(nm + ":")
        elif "raw" in ln:
            lines.append(ln["raw"].replace("{T}", prefix))
        elif "marker" in ln:
            imm = 0x5A000000 + ((op_index * 64 + inv) & 0xFFFFFF)
            lines.append(isa.asm({"v": "movi", "imm": imm, "r": "rax"}))
        else:
            item = dict(ln)
            if item.get("t") is not None and item.get("ttemp"):
                item["t"] = prefix + item["t"]
            lines.append(isa.asm(item))
    oth = pdesc.get("other")
    if oth:
        # contents for another section, behind the code of the patch
        if oth["sect"] == ".data":
            lines.append(".data")
        elif world.desc["fmt"] == "elf":
            lines.append('.section %s,"aw",@progbits' % oth["sect"])
        else:
            lines.append('.section %s,"dw"' % oth["sect"])
        for ln in oth["lines"]:
            if "label" in ln:
                lines.append(((prefix + ln["label"]) if ln.get("temp") else ln["label"]) + ":")
            else:
                lines.append(ln["raw"].replace("{T}", prefix))
    return "\n".join(lines) + "\n"


# --------------------------------------------------------------------------
# capture of assembler results


def expr_desc(e):
    if isinstance(e, gtirb.SymAddrConst):
        return ("const", e.symbol.name, None, e.offset, tuple(sorted(a.name for a in e.attributes)))
    if isinstance(e, gtirb.SymAddrAddr):
        return ("diff", e.symbol1.name, e.symbol2.name, e.offset, tuple(sorted(a.name for a in e.attributes)), e.scale)
    return ("other", repr(e))


def capture_result(result):
    """Plain-data snapshot of an Assembler.Result taken before insert()
    mutates it."""
    secs = {}
    symsets = list(result.symbols)
    for name, s in result.sections.items():
        blocks = [(b.offset, b.size, "code" if isinstance(b, gtirb.CodeBlock) else "data") for b in s.blocks]
        bidx = {id(b): i for i, b in enumerate(s.blocks)}
        labels = []
        for sym in symsets:
            r = sym.referent
            if r is not None and id(r) in bidx:
                b = s.blocks[bidx[id(r)]]
                labels.append((sym.name, b.offset + (b.size if sym.at_end else 0), bool(sym.at_end)))
        secs[name] = {
            "data": bytes(s.data),
            "blocks": blocks,
            "labels": sorted(labels, key=lambda l: (l[1], l[0])),
            "sx": {off: (s.symbolic_expression_sizes.get(off), expr_desc(e)) for off, e in s.symbolic_expressions.items()},
            "align": {bidx[id(b)]: a for b, a in s.alignment.items() if id(b) in bidx},
            "flags": sorted(f.name for f in s.flags),
        }
    return {"text": result.text_section.name, "sections": secs, "nsyms": len(symsets)}


def tokens_from_section(isa, sec, idprefix, md=None):
    """Captured section -> token list (labels before the bytes at their
    offset)."""
    md = md or isa.cs()
    data = sec["data"]
    toks = []
    labels = list(sec["labels"])
    li = 0
    n = 0

    def flush_labels(upto):
        nonlocal li
        while li < len(labels) and labels[li][1] <= upto:
            toks.append(Tok("label", "L:" + labels[li][0], name=labels[li][0], origin=idprefix))
            li += 1

    for off, size, kind in sec["blocks"]:
        if size == 0:
            continue
        if kind == "code":
            pos = off
            for insn in md.disasm(data[off : off + size], 0):
                flush_labels(pos)
                b = bytes(insn.bytes)
                t = Tok("insn", f"{idprefix}.{n}", b=b, ikind=isa.cs_kind(insn), origin=idprefix)
                n += 1
                for so, (ssize, ed) in sec["sx"].items():
                    if pos <= so < pos + len(b):
                        t.sx.append((so - pos, ssize, ed))
                        if t.ikind in ("jmp", "jcc", "call") or t.target is None:
                            t.target = ed[1]
                toks.append(t)
                pos += len(b)
            if pos != off + size:
                raise core.HarnessError("capstone could not decode a patch block")
        else:
            flush_labels(off)
            # split data at label offsets and symbolic expressions so that
            # later sessions can address pieces
            cuts = {off, off + size}
            for nm, lo, _ in labels:
                if off < lo < off + size:
                    cuts.add(lo)
            cuts = sorted(cuts)
            for a, b_ in zip(cuts, cuts[1:]):
                flush_labels(a)
                t = Tok("data", f"{idprefix}.{n}", b=data[a:b_], origin=idprefix)
                n += 1
                for so, (ssize, ed) in sec["sx"].items():
                    if a <= so < b_:
                        t.sx.append((so - a, ssize, ed))
                        t.target = ed[1]
                toks.append(t)
    flush_labels(len(data))
    return toks


# --------------------------------------------------------------------------
# snapshots of the real IR


def block_kind(b):
    return "code" if isinstance(b, gtirb.CodeBlock) else "data"


def sorted_intervals(sect):
    return sorted(sect.byte_intervals, key=lambda bi: (bi.address if bi.address is not None else -1, bi.size, bi.uuid.int))


def sorted_blocks(bi):
    return sorted(bi.blocks, key=lambda b: (b.offset, b.size != 0, block_kind(b), b.uuid.int))


def function_maps(module):
    fb = module.aux_data.get("functionBlocks")
    fe = module.aux_data.get("functionEntries")
    by_block = {}
    entries = set()
    if fb is not None:
        for fu, blocks in fb.data.items():
            for b in blocks:
                by_block.setdefault(b.uuid, []).append(fu)
    if fe is not None:
        for fu, blocks in fe.data.items():
            for b in blocks:
                entries.add(b.uuid)
    return by_block, entries


# --------------------------------------------------------------------------
# session


class Session:
    def __init__(self, world, model, sdesc, armed, index):
        import collections

        self.world = world
        self.model = model
        self.desc = sdesc
        self.armed = armed
        self.index = index
        self.callback_count = 0
        self.contexts = []
        self.captures = []  # (op index, inv, block key, offset, capture)
        self.fired = collections.Counter()
        self.stats = collections.Counter()
        self.steps = []
        self.fault_plan = sdesc.get("faults") or {}

    def fault_at(self, k):
        return (self.fault_plan.get("callback") or {}).get(str(k))

    def redef_text(self):
        name = next(iter(sorted(self.world.syms)), "x")
        return f"{name}:\nnop\n"


def learn_functions(world, model):
    """Map the UUIDs of functions created by register_insert_function to
    the model's function ids (by the name symbol)."""
    fn = world.module.aux_data.get("functionNames")
    if fn is None:
        return
    for fu, sym in fn.data.items():
        if fu not in world.func_ids and ("I:" + sym.name) in model.funcs:
            world.func_ids[fu] = "I:" + sym.name
            world.func_uuid["I:" + sym.name] = fu


def real_view(world, model):
    """Spans and label attachments of the real module, in model terms."""
    m = world.module
    learn_functions(world, model)
    by_block, entries = function_maps(m)
    spans = {}
    for sect in m.sections:
        units = []
        for bi in sorted_intervals(sect):
            uid = world.unit_of_interval.get(str(bi.uuid))
            if uid is None:
                raise core.Desync(f"interval {bi.uuid} of {sect.name} is unknown to the model")
            blocks = []
            for b in sorted_blocks(bi):
                fus = by_block.get(b.uuid, [])
                fid = world.func_ids.get(fus[0]) if fus else None
                blocks.append((str(b.uuid), b.offset, b.size, block_kind(b), fid, b.uuid in entries))
            units.append((uid, blocks))
        spans[sect.name] = units
    att = {}
    for s in m.symbols:
        r = s.referent
        if isinstance(r, gtirb.ByteBlock):
            att[s.name] = (str(r.uuid), bool(s.at_end))
    return spans, att


def resolve_op(model, op):
    """token-based op -> (span key, offset, length)"""
    k = op["k"]
    if k == "ins":
        sp, off, tsize = _locate(model, op["at"])
        return sp.key, off + (tsize if op.get("side") == "after" else 0), 0
    if k in ("del", "rep"):
        sp, off, _ = _locate(model, op["from"])
        sp2, off2, ts2 = _locate(model, op["to"])
        if sp is not sp2 or off2 < off:
            raise core.Rejected("range spans blocks")
        return sp.key, off, off2 + ts2 - off
    if k == "delblock":
        sp, _, _ = _locate(model, op["tok"])
        return sp.key, 0, sp.size
    raise KeyError(k)


def expand_op(model, op):
    """-> list of (span key, offset, length, primitive op); delete_function
    expands to a whole-block proxy deletion of every block of the function"""
    if op["k"] == "delfn":
        out = []
        for lst in model.span_list.values():
            for sp in lst:
                if sp.func == op["func"] and sp.kind == "code" and sp.size:
                    out.append((sp.key, 0, sp.size, {"k": "delblock", "proxy": True}))
        if not out:
            raise core.Rejected("function has no blocks")
        return out
    key, off, length = resolve_op(model, op)
    return [(key, off, length, op)]


def _locate(model, tok_id):
    for sp in model.spans.values():
        for off, tid in sp.offsets.items():
            if tid == tok_id:
                loc = model.find(tok_id)
                t = loc[1].toks[loc[2]]
                return sp, off, len(t.b)
    raise core.Rejected(f"token {tok_id} is not in any block")


def make_scope(sess, sd):
    import re

    from gtirb_rewriting.scopes import (
        ENTRYPOINT_NAME,
        MAIN_NAME,
        AllBlocksScope,
        AllFunctionsScope,
        BlockPosition,
        FunctionPosition,
        SingleBlockScope,
    )

    def names(lst):
        if lst is None:
            return None
        out = set()
        for n in lst:
            if n == "MAIN":
                out.add(MAIN_NAME)
            elif n == "ENTRYPOINT":
                out.add(ENTRYPOINT_NAME)
            elif isinstance(n, dict):
                out.add(re.compile(n["re"]))
            else:
                out.add(n)
        return out

    t = sd["t"]
    if t == "allblocks":
        return AllBlocksScope(BlockPosition[sd["pos"]], names(sd.get("exclude")))
    if t == "single":
        sp, _, _ = _locate(sess.model, sd["tok"])
        if sp.kind != "code":
            raise core.Rejected("SingleBlockScope on a data block")
        return SingleBlockScope(block_by_key(sess.world, sp.key), BlockPosition[sd["pos"]])
    if t == "allfuncs":
        return AllFunctionsScope(FunctionPosition[sd["fpos"]], BlockPosition[sd["bpos"]], names(sd.get("functions")))
    raise KeyError(t)


def register_op(sess, ctx, functions, oi):
    world, model = sess.world, sess.model
    op = sess.desc["ops"][oi]
    k = op["k"]
    if k in ("ins", "del", "rep", "delblock"):
        key, off, length = resolve_op(model, op)
        sess.resolved[oi] = (key, off, length)
        blk = block_by_key(world, key)
        if k == "ins":
            p = sess.patches[oi] = SimPatch(sess, oi, op["patch"])
            ctx.insert_at(blk, off, p)
        elif k == "rep":
            if "bytes" in op["patch"]:
                ctx.replace_at(blk, off, length, bytes.fromhex(op["patch"]["bytes"]))
            else:
                p = sess.patches[oi] = SimPatch(sess, oi, op["patch"])
                ctx.replace_at(blk, off, length, p)
        elif k == "del":
            ctx.delete_at(blk, off, length)
        else:
            ctx.delete_at(blk, 0, blk.size, retarget_to_proxy=bool(op.get("proxy")))
        sess.reg_id[oi] = sess.reg_counter
        sess.reg_counter += 1
    elif k == "reg":
        from gtirb_rewriting.rewriting import UnresolvableScopeError

        p = sess.patches[oi] = SimPatch(sess, oi, op["patch"])
        try:
            ctx.register_insert(make_scope(sess, op["scope"]), p)
        except UnresolvableScopeError as e:
            sess.refused[oi] = "UnresolvableScopeError"
            return
        sess.reg_ops[oi] = op
        sess.reg_id[oi] = sess.reg_counter
        sess.reg_counter += 1
    elif k == "retarget":
        m = world.module
        a = next(iter(m.symbols_named(op["a"])), None)
        b = next(iter(m.symbols_named(op["b"])), None)
        if a is None or b is None:
            raise core.Rejected("retarget of an unknown symbol")
        ctx.retarget_symbol_uses(a, b)
        sess.retargets.append((op["a"], op["b"]))
        if sess.armed == "C18":
            # invalid requests are refused with an error (and change nothing)
            # (a symbol of ANOTHER module, with a referent: only the module
            # test can refuse it)
            fm = gtirb.Module(name="other", isa=m.isa, file_format=m.file_format)
            fm.ir = gtirb.IR()
            fp = gtirb.ProxyBlock()
            fm.proxies.add(fp)
            foreign = gtirb.Symbol("foreign_symbol", payload=fp)
            fm.symbols.add(foreign)
            done = {x[0] for x in sess.retargets}
            fresh_old = next((s_ for s_ in sorted(m.symbols, key=lambda s_: s_.name) if s_.name not in done and s_.referent is not None), None)
            probes = [
                ("foreign-old", lambda: ctx.retarget_symbol_uses(foreign, b)),
                ("twice", lambda: ctx.retarget_symbol_uses(a, b)),
            ]
            if fresh_old is not None:
                probes.append(("foreign-new", lambda: ctx.retarget_symbol_uses(fresh_old, foreign)))
            for what, call in probes:
                try:
                    call()
                except ValueError:
                    sess.fired["refusal." + what] += 1
                else:
                    raise core.Violation("C18", "invalid-accepted", {"request": what}, {"request": what})
    elif k == "delsym":
        sym = next(iter(world.module.symbols_named(op["name"])), None)
        if sym is None:
            raise core.Rejected("delete of an unknown symbol")
        ctx.delete_symbol(sym, force=bool(op.get("force")))
        prev = sess.delsyms.get(op["name"])
        sess.delsyms[op["name"]] = bool(op.get("force")) and (prev is None or prev)
    elif k == "extern":
        m = world.module
        had = sorted((s_ for s_ in m.symbols if s_.name == op["name"]), key=lambda s_: s_.uuid.int)
        sym = ctx.get_or_insert_extern_symbol(op["name"], op["lib"], preload=bool(op.get("preload")), libpath="/opt/lib" if op.get("libpath") else None)
        if sym.name != op["name"] or sym.module is not m or (had and not any(sym is h for h in had)):
            raise core.Violation(sess.armed, "aborted", {"exception": "extern-symbol", "message": "get_or_insert_extern_symbol did not hand out the module's symbol of that name", "session": sess.index}, {"exc": "extern-symbol"})
        if not had:
            world.syms[op["name"]] = sym
            model.proxy_syms.add(op["name"])
        elif len(had) == 1 and sum(1 for s_ in m.symbols if s_.name == op["name"]) != 1:
            raise core.Violation(sess.armed, "aborted", {"exception": "extern-symbol", "message": "get_or_insert_extern_symbol created a second symbol of a name the module already has", "session": sess.index}, {"exc": "extern-symbol"})
        sess.fired["op.extern-get" if had else "op.extern-new"] += 1
    elif k == "insfn":
        p = sess.patches[oi] = SimPatch(sess, oi, op["patch"])
        sym = ctx.register_insert_function(op["name"], p)
        world.syms[op["name"]] = sym
        sess.insfn.append(oi)
    elif k == "delfn":
        fu = world.func_uuid.get(op["func"])
        fobj = next((f for f in functions if f.uuid == fu), None)
        if fobj is None:
            raise core.Rejected("no such function")
        exp = expand_op(model, op)
        sess.expanded[oi] = [(key, off, length) for key, off, length, _ in exp]
        ctx.delete_function(fobj)
        sess.reg_id[oi] = sess.reg_counter
        sess.reg_counter += len(exp)
    else:
        raise core.HarnessError(f"unknown op kind {k}")


def block_by_key(world, key):
    import uuid

    b = world.ir.get_by_uuid(uuid.UUID(key))
    if b is None:
        raise core.HarnessError(f"no node {key}")
    return b


@contextlib.contextmanager
def instrumented(sess):
    """Observe engine steps by rebinding function objects (DESIGN 1.1).
    The wrappers only observe: they never call the mutating accessors of the
    caches."""
    import gtirb_rewriting._modify.edit as ed

    orig_invoke = rw_mod.RewritingContext._invoke_patch
    saved = {}

    def invoke(self, patch, actual_block, actual_offset, context, **kw):
        sess.cache_cfg = self._module.ir.cfg
        sess.steps.append("invoke")
        res = orig_invoke(self, patch, actual_block, actual_offset, context, **kw)
        if isinstance(patch, SimPatch):
            cap = capture_result(res) if res is not None else None
            sess.captures.append(
                {
                    "op": patch.op_index,
                    "inv": patch.invocations,
                    "block": str(context.block.uuid),
                    "offset": context.offset,
                    "cap": cap,
                }
            )
            if res is not None and sess.armed == "C09":
                check_assembled_referents(sess, self._module, res)
        return res

    def wrap_step(mod, name, kind, check):
        orig = getattr(mod, name)
        saved[(mod, name)] = orig

        def w(*a, **kw):
            sess.steps.append(kind)
            r = orig(*a, **kw)
            if check and sess.armed == "C09":
                check_caches(sess, a[0])
            return r

        setattr(mod, name, w)

    orig_delsyms = rw_mod.delete_symbols
    saved[(rw_mod, "delete_symbols")] = orig_delsyms

    def delsyms(module, symbols):
        sess.steps.append("delete_symbols")
        if sess.armed == "C19":
            from . import oracles

            # state right before the symbols are deleted (after all other
            # modifications and retargets of this apply())
            sess.c19_pre = oracles.c19_pre(sess.world)
        return orig_delsyms(module, symbols)

    rw_mod.delete_symbols = delsyms
    rw_mod.RewritingContext._invoke_patch = invoke
    wrap_step(rw_mod, "insert", "insert", True)
    wrap_step(rw_mod, "delete", "delete", True)
    wrap_step(ed, "split_block", "split", False)
    wrap_step(ed, "join_blocks", "join", False)
    wrap_step(ed, "remove_block", "remove", False)
    try:
        yield
    finally:
        rw_mod.RewritingContext._invoke_patch = orig_invoke
        for (mod, name), orig in saved.items():
            setattr(mod, name, orig)


def check_assembled_referents(sess, module, result):
    """C09 (c): whatever the assembler resolved by reading the IR directly
    is a live referent (the cache and Symbol.referent agree for it)."""
    live = {b.uuid for b in module.byte_blocks} | {p.uuid for p in module.proxies}
    own = {id(b) for s in result.sections.values() for b in s.blocks} | {id(p) for p in result.proxies}
    for s in result.sections.values():
        for off, e in s.symbolic_expressions.items():
            for sym in e.symbols:
                if sym.module is module:
                    r = sym.referent
                    if r is None and sym._payload is None:
                        raise core.Violation("C09", "assembler-sees-stale-referent", {"symbol": sym.name, "what": "referent is None at assemble time"}, {"kind": "none"})
                    if isinstance(r, gtirb.Block) and r.uuid not in live and id(r) not in own:
                        raise core.Violation("C09", "assembler-sees-stale-referent", {"symbol": sym.name, "what": "referent is a block that left the module"}, {"kind": "dead"})
    for e in result.cfg:
        for n in (e.source, e.target):
            if id(n) not in own and n.uuid not in live:
                raise core.Violation("C09", "assembler-sees-stale-referent", {"what": "patch edge to a block that left the module"}, {"kind": "dead-edge"})


def check_caches(sess, cache):
    """C09 (b): after every engine step the answers given through the
    rewrite caches agree with the IR itself (read-only walk)."""
    m = cache.module
    # block ordering == blocks of the section in (interval rank, offset) order
    for sect in m.sections:
        order = cache.block_ordering.get(sect)
        if order is None:
            continue
        blocks_in_section = {b.uuid for b in sect.byte_blocks}
        seq = _ordering_list(order)
        if seq is None:
            continue
        if {b.uuid for b in seq} != blocks_in_section:
            raise core.Violation(
                "C09",
                "ordering-cache",
                {"section": sect.name, "only_in_cache": len({b.uuid for b in seq} - blocks_in_section), "only_in_ir": len(blocks_in_section - {b.uuid for b in seq})},
                {"kind": "membership"},
            )
        # within one byte interval the cache order must follow offsets
        last = {}
        for b in seq:
            bi = b.byte_interval
            if bi is None:
                raise core.Violation("C09", "ordering-cache", {"section": sect.name, "what": "cache lists a block without byte interval"}, {"kind": "dead"})
            key = (b.offset, b.size != 0)
            if bi.uuid in last and (b.offset < last[bi.uuid][0]):
                raise core.Violation(
                    "C09",
                    "ordering-cache",
                    {"section": sect.name, "what": "cache order contradicts offsets inside an interval", "chain": [(x.offset, x.size, block_kind(x)) for x in seq if x.byte_interval is bi]},
                    {"kind": "order"},
                )
            last[bi.uuid] = key
    # function of a block
    fb = m.aux_data.get("functionBlocks")
    if fb is not None:
        inv = {}
        for fu, bs in fb.data.items():
            for b in bs:
                inv[b.uuid] = fu
        cached = {b.uuid: fu for b, fu in cache.functions_by_block.items()}
        if inv != cached:
            diff = set(inv.items()) ^ set(cached.items())
            raise core.Violation("C09", "function-cache", {"differences": len(diff)}, {"kind": "diff"})
    # return edges
    rc = cache.return_cache
    scan = {}
    pscan = {}
    for e in rc:
        if e.label is not None and e.label.type == gtirb.Edge.Type.Return:
            scan.setdefault(e.source.uuid, set()).add(e)
            if isinstance(e.target, gtirb.ProxyBlock):
                pscan.setdefault(e.source.uuid, set()).add(e)
    got = {k.uuid: set(v) for k, v in rc._return_edges.items() if v}
    pgot = {k.uuid: set(v) for k, v in rc._proxy_return_edges.items() if v}
    if scan != got or pscan != pgot:
        raise core.Violation("C09", "return-cache", {"what": "return-edge index differs from a scan of the CFG"}, {"kind": "index"})
    # referents: every symbol resolves (directly or through the cache) to a
    # block that is part of the module
    ref = cache.reference_cache
    live = {b.uuid for b in m.byte_blocks} | {p.uuid for p in m.proxies}
    for sym in m.symbols:
        if sym in ref._referents:
            node = ref._referents[sym]
            hops = 0
            while not isinstance(node, gtirb.Block):
                node = node.parent
                hops += 1
                if hops > 10000:
                    raise core.Violation("C09", "reference-cache", {"symbol": sym.name, "what": "cycle in the reference tree"}, {"kind": "cycle"})
            if sym.referent is not None:
                raise core.Violation("C09", "reference-cache", {"symbol": sym.name, "what": "symbol has both a direct and an indirect referent"}, {"kind": "both"})
            target = node
        else:
            target = sym.referent
        if isinstance(target, gtirb.Block) and target.uuid not in live:
            raise core.Violation("C09", "reference-cache", {"symbol": sym.name, "what": "resolves to a block that is not in the module"}, {"kind": "dead"})


def _ordering_list(order):
    """Read-only walk of a BlockOrdering (possibly several detached
    chains); returns the blocks chain after chain."""
    nodes = getattr(order, "_BlockOrdering__order", None)
    if nodes is None:
        return None
    heads = [n for n in nodes.values() if n.prev is None]
    out = []
    seen = 0
    for h in sorted(heads, key=lambda n: (n.value.byte_interval.uuid.int if n.value.byte_interval is not None else 0, n.value.offset)):
        n = h
        while n is not None:
            out.append(n.value)
            seen += 1
            if seen > len(nodes) + 1:
                raise core.Violation("C09", "ordering-cache", {"what": "cycle in the block ordering"}, {"kind": "cycle"})
            n = n.next
    if seen != len(nodes):
        raise core.Violation("C09", "ordering-cache", {"what": "block ordering chains do not cover all entries"}, {"kind": "chains"})
    return out


class _FormatOnly(logging.Handler):
    """Formats every record (so that %s of blocks, patches and expressions
    is really evaluated) and throws the text away."""

    def emit(self, record):
        record.getMessage()


def run_session(world, model, sdesc, armed, index, logger=None, gen_cb=None, check_shape=None, sink=None):
    """Execute one session against the real module and the model.
    Returns the Session (with .error set if apply() raised)."""
    m = world.module
    try:
        spans, att = real_view(world, model)
        model.begin_session(spans, att)
    except ModelMismatch as e:
        raise core.Desync(f"cannot map real blocks onto the listing: {e}")
    if sdesc is None:
        # (a hint for the generator only: which blocks carry an alignment
        # requirement right now)
        at_ = m.aux_data.get("alignment")
        model.align_hint = {str(b.uuid): a for b, a in (at_.data.items() if at_ is not None else []) if isinstance(b, gtirb.ByteBlock)}
        sdesc = gen_cb(model)
        if sink is not None:
            # recorded before anything runs: a violation raised from inside
            # the session must leave a complete (replayable) scenario behind
            sink.append(sdesc)
    elif check_shape is not None and not sdesc.get("wild") and sdesc["ops"]:
        # a replayed / shrunk scenario must still satisfy the generator's
        # preconditions
        if not check_shape(model, sdesc):
            raise core.Rejected("session violates the generator's shape preconditions")
    sess = Session(world, model, sdesc, armed, index)
    sess.error = None
    if sdesc.get("debug_log"):
        sess.fired["knob.debug_log"] += 1
    if m.aux_data.get("functionEntries") is not None and m.aux_data.get("functionBlocks") is not None:
        functions = gtirb_functions.Function.build_functions(m)
    else:
        functions = []
    sess.functions = functions
    lg = logger or logging.getLogger("sim.null")
    if not lg.handlers:
        lg.addHandler(logging.NullHandler())
        lg.propagate = False
    if logger is None and sdesc.get("debug_log"):
        # DEBUG knob: the library then disassembles and prints the block
        # before and after every patch, reading the IR in mid-rewrite; the
        # result of the rewrite must not depend on it
        lg = logging.getLogger("sim.debug")
        if not lg.handlers:
            lg.addHandler(_FormatOnly())
            lg.propagate = False
            lg.setLevel(logging.DEBUG)
        sess_debug = True
    else:
        sess_debug = False
    ops = sdesc["ops"]
    order = sdesc.get("reg_order") or list(range(len(ops)))
    sess.resolved = {}
    sess.delsyms = {}
    sess.retargets = []
    sess.insfn = []
    sess.expanded = {}
    sess.patches = {}
    sess.reg_id = {}
    sess.reg_ops = {}
    sess.refused = {}
    sess.reg_counter = 0
    sess.ctx_functions = functions

    def register(ctx, functions, indices):
        for oi in indices:
            register_op(sess, ctx, functions, oi)

    if sdesc.get("mode") == "pm":
        from gtirb_rewriting.passes import Pass, PassManager

        class SimPass(Pass):
            def __init__(self, indices, pi):
                self.indices = indices
                self.pi = pi

            def begin_module(self, module, functions, rewriting_ctx):
                sess.ctx = rewriting_ctx
                sess.ctx_functions = functions
                fk = (sess.fault_plan.get("begin_module") or {}).get(str(self.pi))
                if fk:
                    sess.fired["begin_module-raise"] += 1
                    raise InjectedFault(f"begin_module of pass {self.pi}")
                register(rewriting_ctx, functions, self.indices)

            def end_module(self, module, functions):
                fk = (sess.fault_plan.get("end_module") or {}).get(str(self.pi))
                if fk:
                    sess.fired["end_module-raise"] += 1
                    raise InjectedFault(f"end_module of pass {self.pi}")

        pm = PassManager(logger=lg)
        for pi, indices in enumerate(sdesc.get("passes") or [order]):
            pm.add(SimPass(indices, pi))
        runner = lambda: pm.run(world.ir)
    else:
        ctx = gtirb_rewriting.RewritingContext(m, functions, logger=lg)
        sess.ctx = ctx
        register(ctx, functions, order)
        runner = ctx.apply
    if armed == "C07" or (armed == "C01" and any(op["k"] == "reg" for op in ops)):
        from . import oracles

        # (C01 needs it as well: a scope registration that is silently not
        # applied leaves no capture behind, i.e. nothing the byte model
        # could miss)
        sess.c07_expected = oracles.c07_expected(sess)
    sess.pre_blocks = {b.uuid for b in m.byte_blocks}
    world.last_pre_blocks = sess.pre_blocks  # (read by observe: fresh padding is a block made by this session)
    # first block of every byte interval (the one that keeps the original
    # interval when the intervals are split per block)
    sess.pre_first = {str(min(bi.blocks, key=lambda b: (b.offset, b.size)).uuid) for bi in m.byte_intervals if bi.blocks}
    # address order of every section before the session: what 'the next
    # block' was when a block of this section is deleted (modifications are
    # applied in address order, so everything behind it is still untouched)
    sess.pre_order = {
        sect.name: [
            (
                b.uuid,
                isinstance(b, gtirb.CodeBlock),
                b.size,
                isinstance(b, gtirb.CodeBlock) and any(not (e.label and e.label.type == gtirb.Edge.Type.Fallthrough) for e in b.incoming_edges),
            )
            for b in sorted(sect.byte_blocks, key=lambda b: (b.address if b.address is not None else -1, b.size != 0, b.offset))
        ]
        for sect in m.sections
    }
    # function tables by block uuid before the session (zero-sized blocks
    # are not part of the listing model; C06 judges them from these)
    sess.pre_fentries = {}
    sess.pre_fblocks = {}
    for tname, dst in (("functionEntries", sess.pre_fentries), ("functionBlocks", sess.pre_fblocks)):
        tab = m.aux_data.get(tname)
        if tab is not None:
            for fu, bs in tab.data.items():
                for b in bs:
                    dst[b.uuid] = fu
    sess.orig_cfg = world.ir.cfg
    sess.pre_symbol_refs = {s.uuid: s.referent is not None for s in m.symbols}
    sess.cache_cfg = None
    with instrumented(sess):
        try:
            runner()
        except InjectedFault as e:
            sess.error = e
        except (core.Rejected, core.Desync, core.HarnessError, core.Violation):
            raise
        except Exception as e:  # unexpected: reported by the armed oracle
            if type(e).__name__ == "PaddingError":
                # documented failure: the ABI's nop does not fit into the
                # padding an alignment requirement asks for (4-byte nops)
                raise core.Rejected("PaddingError: " + str(e))
            sess.error = e
    return sess


def apply_to_model(sess):
    """Apply the session's modifications to the listing model in the
    engine's documented order: blocks by address, (offset, id) in a block."""
    model = sess.model
    world = sess.world
    ops = sess.desc["ops"]
    caps = {}
    for c in sess.captures:
        if ops[c["op"]]["k"] != "reg":
            caps.setdefault(c["op"], []).append(c)
    mods = []
    for oi, (key, off, length) in sess.resolved.items():
        sp = model.spans[key]
        mods.append(((model.section_order.index(sp.sect), _unit_rank(model, sp), sp.start), off, sess.reg_id[oi], oi, key, length, None))
    for oi, lst in sess.expanded.items():
        for n, (key, off, length) in enumerate(lst):
            sp = model.spans[key]
            mods.append(((model.section_order.index(sp.sect), _unit_rank(model, sp), sp.start), off, sess.reg_id[oi] + n, oi, key, length, None))
    # scope-based insertions: the model takes block and offset from the
    # InsertionContext the patch received (their legality is C07's oracle)
    for c in sess.captures:
        oi = c["op"]
        if ops[oi]["k"] == "reg":
            sp = model.spans.get(c["block"])
            if sp is None:
                # a scope designates blocks the module has when the rewrite
                # starts; code added by the same rewrite is not among them
                scope = ops[oi]["scope"]
                sig = {"scope": scope["t"], "pos": scope.get("pos") or scope.get("bpos"), "fpos": scope.get("fpos"), "layout_reordered": False, "new_block": True}
                wit = {"op": oi, "scope": scope, "block": "a block created by this rewrite"}
                if sess.armed == "C07":
                    raise core.Violation("C07", "invoked-elsewhere", wit, sig)
                if sess.armed == "C01":
                    raise core.Violation("C01", "patch-duplicated", wit, {"via": "scope", **sig})
                raise core.Desync("scope-based patch invoked for a block that did not exist at the start of the session")
            mods.append(((model.section_order.index(sp.sect), _unit_rank(model, sp), sp.start), c["offset"], sess.reg_id[oi], oi, c["block"], 0, c))
    mods.sort(key=lambda x: (x[0], x[1], x[2], x[3]))
    md = world.isa.cs()
    # inserted functions come first, each in a new unit at the end of .text
    for oi in sess.insfn:
        op = ops[oi]
        lst = caps.get(oi) or []
        if not lst:
            raise core.Desync(f"function patch of op {oi} was never invoked")
        c = lst.pop(0)
        fid = "I:" + op["name"]
        model.funcs[fid] = {"name": op["name"]}
        if c["cap"] is None:
            # get_asm returned nothing: the stub (a single nop that returns)
            toks = [Tok("insn", model.fresh_id(f"s{sess.index}o{oi}stub"), b=world.isa.nop, ikind="ret", origin=("stub", oi))]
        else:
            cap = c["cap"]
            toks = tokens_from_section(world.isa, cap["sections"][cap["text"]], f"s{sess.index}o{oi}i{c['inv']}", md)
            for name, sec in cap["sections"].items():
                if name != cap["text"] and sec["data"]:
                    model.add_unit(name, tokens_from_section(world.isa, sec, f"s{sess.index}o{oi}x{name}", md), name=f"n{sess.index}o{oi}{name}")
        for t in toks:
            if t.kind == "insn":
                t.func = fid
        head = [Tok("label", "L:" + op["name"], name=op["name"], origin=("insfn", oi)), Tok("entry", ("entry", "new", oi), func=fid)]
        model.add_unit(".text", head + toks, name=f"n{sess.index}o{oi}fn")
    for _, off, rid, oi, key, length, rcap in mods:
        op = ops[oi]
        k = op["k"]
        if k == "delfn":
            model.delete(key, off, length, proxy=True)
            continue
        if k in ("del", "delblock"):
            model.delete(key, off, length, proxy=bool(op.get("proxy")))
            continue
        # insertion / replacement
        if "bytes" in op["patch"]:
            toks = [Tok("data", model.fresh_id(f"s{sess.index}o{oi}b"), b=bytes.fromhex(op["patch"]["bytes"]), origin=("bytes", oi))]
            other = {}
        else:
            if rcap is not None:
                c = rcap
            else:
                lst = caps.get(oi) or []
                if not lst:
                    raise core.Desync(f"patch of op {oi} was never invoked")
                c = lst.pop(0)
            if c["cap"] is None:
                continue  # get_asm returned nothing: no insertion
            cap = c["cap"]
            pre = f"s{sess.index}o{oi}i{c['inv']}"
            toks = tokens_from_section(world.isa, cap["sections"][cap["text"]], pre, md)
            other = {n: s for n, s in cap["sections"].items() if n != cap["text"]}
        if length:
            model.delete(key, off, length, replacing=True)
        model.insert(key, off, toks, replace_len=length)
        for name, sec in other.items():
            if not sec["data"]:
                continue
            # (token ids carry the invocation: a scope registration is invoked once per block)
            model.add_unit(name, tokens_from_section(world.isa, sec, f"s{sess.index}o{oi}i{c['inv']}x{name}", md), name=f"n{sess.index}o{oi}i{c['inv']}{name}")
    apply_retargets(sess)


def apply_retargets(sess):
    from . import oracles

    # order of a rewrite: modifications, then retargets, then deletions (a
    # symbol whose uses were all retargeted can be deleted without force, and
    # the retargeted expressions stay - C18)
    if sess.retargets:
        # whether a label that slid onto a block deleted with
        # retarget_to_proxy became external is decided by the implementation
        oracles._reconcile_proxies(sess.world, sess.model)
        sess.model.retarget(sess.retargets, lambda t, attrs, ai, bi: oracles.convert_attrs(sess.world.desc, t, attrs, ai, bi))
    if sess.delsyms:
        sess.c19_used = oracles.c19_uses(sess.model, [n for n, f in sess.delsyms.items() if not f])
    if sess.delsyms and sess.error is None:
        sess.model.delete_symbols(set(sess.delsyms))


def _unit_rank(model, sp):
    return model.sections[sp.sect].index(sp.unit)
