"""Human-readable dumps for triage."""
import gtirb
from .driver import sorted_blocks, sorted_intervals, block_kind


def dump_real(world):
    m = world.module
    al = m.aux_data["alignment"].data if "alignment" in m.aux_data else {}
    fb = {}
    if "functionBlocks" in m.aux_data:
        for fu, bs in m.aux_data["functionBlocks"].data.items():
            for b in bs:
                fb[b.uuid] = world.func_ids.get(fu, str(fu)[:6])
    out = []
    for sect in m.sections:
        out.append(f"section {sect.name}")
        for bi in sorted_intervals(sect):
            out.append(f"  interval {world.unit_of_interval.get(str(bi.uuid))} addr={bi.address} size={bi.size} init={bi.initialized_size}")
            for b in sorted_blocks(bi):
                syms = [s.name + ("@end" if s.at_end else "") for s in b.references]
                out.append(f"    {block_kind(b)} off={b.offset} size={b.size} align={al.get(b)} f={fb.get(b.uuid)} syms={sorted(syms)} {bytes(bi.contents[b.offset:b.offset+b.size]).hex()}")
                if isinstance(b, gtirb.CodeBlock):
                    for e in sorted(b.outgoing_edges, key=lambda e: str(e.label)):
                        t = e.target
                        ts = f"{block_kind(t)}@{t.address}" if isinstance(t, gtirb.ByteBlock) else "proxy"
                        out.append(f"        -> {e.label.type.name} c={e.label.conditional} d={e.label.direct} {ts}")
    return "\n".join(out)


def dump_model(model):
    out = []
    for s, u in model.units():
        out.append(f"{s} unit {u.id}")
        pos, _ = u.positions()
        for t, p in zip(u.toks, pos):
            out.append(f"    {p:4d} {t!r} f={t.func} tgt={t.target}")
    return "\n".join(out)
