"""Whole-IR validator for C05 (closed, well-formed, serializable)."""

import io
import uuid as _uuid

import gtirb

from .. import core


def _norm(x, seen_nodes):
    """Normalise aux data for comparison; collect nodes."""
    if isinstance(x, gtirb.Node):
        seen_nodes.append(x)
        return ("node", type(x).__name__, str(x.uuid))
    if isinstance(x, gtirb.Offset):
        el = x.element_id
        if isinstance(el, gtirb.Node):
            seen_nodes.append(el)
            return ("offset", str(el.uuid), x.displacement)
        return ("offset", str(el), x.displacement)
    if isinstance(x, _uuid.UUID):
        return ("uuid", str(x))
    if isinstance(x, dict) or hasattr(x, "items"):
        return ("dict", sorted(((_norm(k, seen_nodes), _norm(v, seen_nodes)) for k, v in x.items()), key=repr))
    if isinstance(x, (set, frozenset)):
        return ("set", sorted((_norm(v, seen_nodes) for v in x), key=repr))
    if isinstance(x, (list, tuple)):
        return ("seq", [_norm(v, seen_nodes) for v in x])
    if isinstance(x, (bytes, bytearray)):
        return ("bytes", bytes(x).hex())
    return x


def dump_ir(ir):
    """Structure dump with UUIDs (for the protobuf round trip)."""
    out = {"modules": [], "cfg": None, "aux": None}
    nodes = []
    for m in sorted(ir.modules, key=lambda m: str(m.uuid)):
        md = {"uuid": str(m.uuid), "name": m.name, "isa": m.isa.name, "ff": m.file_format.name, "entry": str(m.entry_point.uuid) if m.entry_point else None, "sections": [], "symbols": [], "proxies": sorted(str(p.uuid) for p in m.proxies)}
        for s in sorted(m.sections, key=lambda s: str(s.uuid)):
            sd = {"uuid": str(s.uuid), "name": s.name, "flags": sorted(f.name for f in s.flags), "intervals": []}
            for bi in sorted(s.byte_intervals, key=lambda b: str(b.uuid)):
                sd["intervals"].append(
                    {
                        "uuid": str(bi.uuid),
                        "addr": bi.address,
                        "size": bi.size,
                        "init": bi.initialized_size,
                        "contents": bytes(bi.contents).hex(),
                        "blocks": sorted((str(b.uuid), type(b).__name__, b.offset, b.size) for b in bi.blocks),
                        "symexprs": sorted((off, repr(_norm_expr(e))) for off, e in bi.symbolic_expressions.items()),
                    }
                )
            md["sections"].append(sd)
        for sym in sorted(m.symbols, key=lambda s: str(s.uuid)):
            r = sym._payload if hasattr(sym, "_payload") else sym.referent
            md["symbols"].append((str(sym.uuid), sym.name, str(r.uuid) if isinstance(r, gtirb.Node) else r, bool(sym.at_end)))
        md["aux"] = {k: (v.type_name, _norm(v.data, nodes)) for k, v in sorted(m.aux_data.items())}
        out["modules"].append(md)
    out["cfg"] = sorted(
        (str(e.source.uuid), str(e.target.uuid), (e.label.type.name, bool(e.label.conditional), bool(e.label.direct)) if e.label else None) for e in ir.cfg
    )
    out["aux"] = {k: (v.type_name, _norm(v.data, nodes)) for k, v in sorted(ir.aux_data.items())}
    return out


def _norm_expr(e):
    if isinstance(e, gtirb.SymAddrConst):
        return ("const", e.offset, str(e.symbol.uuid), sorted(a.name for a in e.attributes))
    if isinstance(e, gtirb.SymAddrAddr):
        return ("diff", e.scale, e.offset, str(e.symbol1.uuid), str(e.symbol2.uuid), sorted(a.name for a in e.attributes))
    return ("other", repr(e))


def validate(world, pre_blocks, failure=False, cache_cfg=None, orig_cfg=None, pre_symbol_refs=None, reordered=False, pre_order=None):
    """Raise core.Violation('C05', ...) if the IR is not closed / well
    formed / serializable.  ``pre_blocks``: uuids of blocks that existed
    before the session (new blocks must not overlap anything)."""
    ir, m = world.ir, world.module
    blocks = {b.uuid: b for b in m.byte_blocks}
    proxies = {p.uuid for p in m.proxies}
    symbols = {s.uuid for s in m.symbols}
    sections = {s.uuid for s in m.sections}
    intervals = {bi.uuid for bi in m.byte_intervals}

    def in_module(n):
        if isinstance(n, gtirb.ByteBlock):
            return n.uuid in blocks and n.module is m
        if isinstance(n, gtirb.ProxyBlock):
            return n.uuid in proxies
        if isinstance(n, gtirb.Symbol):
            return n.uuid in symbols
        if isinstance(n, gtirb.Section):
            return n.uuid in sections
        if isinstance(n, gtirb.ByteInterval):
            return n.uuid in intervals
        if isinstance(n, gtirb.Module):
            return n is m
        return True

    # blocks inside intervals; new blocks do not overlap
    for bi in m.byte_intervals:
        bl = sorted(bi.blocks, key=lambda b: (b.offset, b.size))
        for b in bl:
            if b.offset < 0 or b.offset + b.size > bi.size:
                raise core.Violation("C05", "block-outside-interval", {"block": [b.offset, b.size], "interval_size": bi.size}, {"kind": type(b).__name__})
        for a, b in zip(bl, bl[1:]):
            if a.size and b.size and a.offset + a.size > b.offset and (a.uuid not in pre_blocks or b.uuid not in pre_blocks):
                raise core.Violation("C05", "new-block-overlap", {"a": [a.offset, a.size], "b": [b.offset, b.size]}, {"kind": "overlap"})
    # CFG endpoints
    for e in ir.cfg:
        for n in (e.source, e.target):
            if not in_module(n):
                raise core.Violation("C05", "dangling-node", {"table": "cfg", "node": type(n).__name__, "label": e.label.type.name if e.label else None}, {"table": "cfg", "node": type(n).__name__})
    # symbol referents
    for s in m.symbols:
        r = s.referent
        if isinstance(r, gtirb.Node) and not in_module(r):
            raise core.Violation("C05", "dangling-node", {"table": "symbols", "symbol": s.name, "node": type(r).__name__}, {"table": "symbols", "node": type(r).__name__})
        if pre_symbol_refs is not None and r is None and pre_symbol_refs.get(s.uuid):
            raise core.Violation("C05", "symbol-stranded", {"symbol": s.name}, {"kind": "stranded"})
    # symbolic expressions
    for bi in m.byte_intervals:
        for off, e in bi.symbolic_expressions.items():
            for sym in e.symbols:
                if not in_module(sym):
                    raise core.Violation("C05", "dangling-node", {"table": "symbolic_expressions", "symbol": sym.name}, {"table": "symexpr", "node": "Symbol"})
    # aux data
    for name, ad in sorted(m.aux_data.items()):
        nodes = []
        _norm(ad.data, nodes)
        for n in nodes:
            if not in_module(n):
                raise core.Violation("C05", "dangling-node", {"table": name, "node": type(n).__name__}, {"table": name, "node": type(n).__name__})
    if m.entry_point is not None and not in_module(m.entry_point):
        raise core.Violation("C05", "dangling-node", {"table": "entry_point"}, {"table": "entry_point", "node": "CodeBlock"})
    if not failure:
        for b in m.byte_blocks:
            if b.address is None:
                raise core.Violation("C05", "no-address", {"block": [b.offset, b.size]}, {"kind": type(b).__name__})
        if not reordered:
            # (adjacency at deletion time cannot be reconstructed once layout
            # has reordered the intervals of a section)
            _zero_sized(world, pre_blocks, pre_order)
    else:
        if orig_cfg is not None and ir.cfg is not orig_cfg:
            raise core.Violation("C05", "cfg-object-replaced", {"what": "ir.cfg is not the caller's CFG object after the failure"}, {"kind": "replaced"})
        if cache_cfg is not None:
            live = set(cache_cfg)
            now = set(ir.cfg)
            if live != now:
                raise core.Violation("C05", "edge-lost-on-failure", {"lost": len(live - now), "extra": len(now - live)}, {"kind": "lost" if live - now else "extra"})
    # protobuf round trip
    buf = io.BytesIO()
    try:
        ir.save_protobuf_file(buf)
    except Exception as e:
        raise core.Violation("C05", "roundtrip-diff", {"what": "save failed", "error": f"{type(e).__name__}: {e}"[:300]}, {"kind": "save-" + type(e).__name__})
    buf.seek(0)
    try:
        ir2 = gtirb.IR.load_protobuf_file(buf)
    except Exception as e:
        raise core.Violation("C05", "roundtrip-diff", {"what": "load failed", "error": f"{type(e).__name__}: {e}"[:300]}, {"kind": "load-" + type(e).__name__})
    d1, d2 = dump_ir(ir), dump_ir(ir2)
    if d1 != d2:
        raise core.Violation("C05", "roundtrip-diff", {"what": _first_diff(d1, d2)}, {"kind": "diff"})


def _first_diff(a, b, path=""):
    if type(a) != type(b):
        return f"{path}: {type(a).__name__} vs {type(b).__name__}"
    if isinstance(a, dict):
        for k in sorted(set(a) | set(b), key=str):
            if k not in a or k not in b:
                return f"{path}/{k}: only on one side"
            d = _first_diff(a[k], b[k], f"{path}/{k}")
            if d:
                return d
        return None
    if isinstance(a, (list, tuple)):
        if len(a) != len(b):
            return f"{path}: length {len(a)} vs {len(b)}"
        for i, (x, y) in enumerate(zip(a, b)):
            d = _first_diff(x, y, f"{path}[{i}]")
            if d:
                return d
        return None
    if a != b:
        return f"{path}: {str(a)[:80]} vs {str(b)[:80]}"
    return None


def _zero_sized(world, pre_blocks, pre_order=None):
    """Zero-sized blocks may remain only in the documented cases
    (doc/Deletion.md, plus the entry-point / DT_INIT / DT_FINI condition).
    The cases speak about the block that follows *when the block is
    deleted*: for a block that existed before the session that is its
    successor in the pre-session address order (modifications are applied
    in address order); blocks that were already zero-sized before the
    session were judged in the session that emptied them."""
    m = world.module
    cfi = m.aux_data.get("cfiDirectives")
    cfi_blocks = set()
    if cfi is not None:
        for key, dirs in cfi.data.items():
            if isinstance(key.element_id, gtirb.ByteBlock) and dirs:
                cfi_blocks.add(key.element_id.uuid)
    for sect in m.sections:
        bl = sorted(sect.byte_blocks, key=lambda b: (b.address if b.address is not None else -1, b.size != 0))
        po = (pre_order or {}).get(sect.name)
        pidx = {t[0]: i for i, t in enumerate(po)} if po is not None else {}
        for i, b in enumerate(bl):
            if b.size != 0:
                continue
            others = [x for x in bl if x is not b]
            nxt = next((x for x in bl[i + 1 :]), None)
            prv = bl[i - 1] if i > 0 else None
            nxt_code = isinstance(nxt, gtirb.CodeBlock)
            prv_code = isinstance(prv, gtirb.CodeBlock)
            pre_incoming = False
            if b.uuid in pidx:
                j = pidx[b.uuid]
                if po[j][2] == 0:
                    continue
                nxt_code = j + 1 < len(po) and po[j + 1][1]
                prv_code = j > 0 and po[j - 1][1]
                pre_incoming = po[j][3]
                # (control flow into blocks right in front that were deleted
                # as a whole earlier in this session had slid onto this block
                # by the time it was deleted, whatever became of it later)
                live_now = {x.uuid for x in bl}
                k = j - 1
                while k >= 0 and po[k][0] not in live_now and po[k][1]:
                    pre_incoming = pre_incoming or po[k][3]
                    k -= 1
            ok = False
            if any(True for _ in b.references) and not [x for x in others if x.uuid in pre_blocks]:
                # (blocks made during the session - alignment padding in
                # particular - were not there to take the symbols)
                ok = True
            if isinstance(b, gtirb.CodeBlock):
                nonft = [e for e in b.incoming_edges if not (e.label and e.label.type == gtirb.Edge.Type.Fallthrough)]
                # (edges that came from code behind the block were still
                # there when it was deleted, whatever became of them later)
                if (nonft or pre_incoming) and not nxt_code:
                    ok = True
                if b.uuid in cfi_blocks and not prv_code and not nxt_code:
                    ok = True
                if (m.entry_point is b or _aux_is(m, "elfDynamicInit", b) or _aux_is(m, "elfDynamicFini", b)) and not nxt_code:
                    ok = True
            if not ok:
                raise core.Violation(
                    "C05",
                    "stray-zero-sized-block",
                    {"kind": type(b).__name__, "address": b.address, "symbols": sorted(s.name for s in b.references), "next": type(nxt).__name__ if nxt else None},
                    {"kind": type(b).__name__, "pre_existing": b.uuid in pre_blocks},
                )


def _aux_is(m, name, b):
    ad = m.aux_data.get(name)
    return ad is not None and ad.data is b
