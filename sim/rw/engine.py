"""rwsim engine: run / replay / shrink for the rewrite world simulator."""

import collections
import contextlib
import copy
import json

from .. import core


def _sigma(streams, params):
    r = streams.get("sched")
    return {
        "uuid_seed": r.getrandbits(48),
        "salt": r.getrandbits(64),
        "hashseed": core.hashseed_of(streams.seed),
    }


def run(prop, seed, params):
    from . import gen

    if prop == "C13" and core.derive(seed, "half") % 100 < params.get("asm_half", 50):
        from .. import asmsim

        return asmsim.run(prop, seed, params)

    streams = core.Streams(seed)
    params = dict(params)
    sigma = _sigma(streams, params)
    desc = gen.gen_module(streams.get("gen.module"), params)
    if prop == "C10" and streams.get("gen.exotic").random() < params.get("exotic_p", 0.3):
        desc = gen.make_exotic(streams.get("gen.exotic"), desc)
    nsess = streams.get("gen.history").choices([1, 2, 3], weights=params.get("session_weights", [60, 30, 10]))[0]
    scenario = {"engine": "rwsim", "seed": seed, "sigma": sigma, "module": desc, "sessions": [], "plan": {"nsessions": nsess}}
    result = execute(prop, scenario, params, streams=streams)
    return scenario, result


def replay(prop, scenario, params):
    if scenario.get("kind") == "asm":
        from .. import asmsim

        return asmsim.replay(prop, scenario, params)
    return execute(prop, scenario, params, streams=None)


def execute(prop, scenario, params, streams=None):
    if prop == "C05":
        return execute_c05(scenario, params, streams)
    if prop == "C09":
        return execute_c09(scenario, params, streams)
    if prop == "C10":
        return execute_c10(scenario, params, streams)
    if prop == "C11":
        return execute_c11(scenario, params, streams)
    return execute_generic(prop, scenario, params, streams)


def _c11_play(scenario, sigma, params, streams, perm_seed):
    """Execute the scenario under one schedule sigma; returns the strict
    UUID-free canonical dump (addresses and temporary-label names included)
    or ('abort', ...)."""
    import random

    from . import build, canon, driver, gen, observe, oracles

    core.reseed(sigma["uuid_seed"], sigma["salt"])
    world, model = build.build(scenario["module"])
    obs = observe.Obs(world, model)
    oracles.align_model(world, model, obs, "C11")
    if not gen.module_shape_ok(model) or not gen.module_desc_ok(scenario["module"]):
        raise core.Rejected("module violates the generator's shape preconditions")
    shape = lambda m, sd: gen.shape_ok(m, sd, params) and gen.ops_allowed(m, sd)
    n = scenario.get("plan", {}).get("nsessions", len(scenario["sessions"])) if streams else len(scenario["sessions"])
    nperm = 0
    for si in range(n):
        gen_cb = None
        if si < len(scenario["sessions"]):
            sdesc = scenario["sessions"][si]
        else:
            sdesc = None
            hist = streams.get(f"gen.session.{si}")

            def gen_cb(m, hist=hist, si=si):
                return gen.gen_session(hist, m, params, si)

        if sdesc is not None and perm_seed is not None and not any(op["k"] in ("reg", "insfn", "extern") for op in sdesc["ops"]):
            # permute the registration order of modifications that target
            # different blocks (order inside one block is kept)
            spans, att = driver.real_view(world, model)
            model.begin_session(spans, att)
            groups = {}
            for oi, op in enumerate(sdesc["ops"]):
                try:
                    key = driver.expand_op(model, op)[0][0]
                except Exception:
                    key = ("?", oi)
                groups.setdefault(key, []).append(oi)
            model.end_session()
            keys = sorted(groups, key=str)
            random.Random(core.derive(perm_seed, si)).shuffle(keys)
            order = [oi for k in keys for oi in groups[k]]
            if order != list(range(len(order))):
                nperm += 1
            sdesc = dict(sdesc)
            sdesc["reg_order"] = order
        sess = driver.run_session(world, model, sdesc, "C11", si, gen_cb=gen_cb, sink=scenario["sessions"], check_shape=shape)
        if sess.error is not None:
            # (whether an earlier session's re-layout put the byte intervals in
            # another order - finding F03 - is known at this point and is part
            # of the cause: blocks are visited in address order)
            return ("abort", type(sess.error).__name__, str(sess.error)[:200]), nperm, bool(getattr(model, "reordered_ever", False))
        driver.apply_to_model(sess)
        model.end_session()
        obs = observe.Obs(world, model)
        oracles.align_model(world, model, obs, "C11")
    return canon.dump(world, strip_temp=False, with_addresses=True, unit_names=True), nperm, bool(getattr(model, "reordered_ever", False))


def execute_c11(scenario, params, streams=None):
    """C11: the same scenario under K schedules (UUID stream, node-hash
    salt, PYTHONHASHSEED, permuted registration order of modifications at
    different blocks) must give the same module up to UUID renaming."""
    from .. import helpers
    from . import canon

    stats = collections.Counter()
    params = dict(params)
    params["_isa"] = scenario["module"]["isa"]
    params["_fmt"] = scenario["module"]["fmt"]
    sigma = scenario["sigma"]
    meta = {"sigma": core.digest(sigma), "interleavings": []}
    if params.get("dump_only"):
        # helper mode: one execution under params['use_sigma']
        try:
            d, nperm, reord = _c11_play(scenario, params["use_sigma"], params, None, params.get("perm_seed"))
        except core.Rejected as e:
            return {"verdict": core.Verdict.REJECTED, "why": str(e), "stats": {}, "meta": meta}
        except core.Desync as e:
            return {"verdict": core.Verdict.DESYNC, "why": str(e)[:300], "stats": {}, "meta": meta}
        return {"verdict": core.Verdict.OK, "stats": {}, "dump": d if params.get("want_dump") else None, "dump_digest": core.digest(d), "nperm": nperm, "reordered": reord, "meta": meta}
    try:
        base, _, reord0 = _c11_play(scenario, sigma, params, streams, None)
        scenario["plan"] = {"nsessions": len(scenario["sessions"])}
        stats["executions"] += 1
        stats["ops"] += sum(len(s["ops"]) for s in scenario["sessions"])
        if "alts" not in scenario:
            r = streams.get("sched.alts")
            k = params.get("k", 4)
            alts = []
            for j in range(k - 1):
                alts.append(
                    {
                        "uuid_seed": r.getrandbits(48),
                        "salt": r.getrandbits(64),
                        "hashseed": (sigma["hashseed"] + (j + 1 if r.random() < params.get("other_hashseed_p", 0.5) else 0)) % core.HASHSEED_CLASSES,
                        "perm_seed": r.getrandbits(32) if r.random() < 0.7 else None,
                    }
                )
            scenario["alts"] = alts
        base_digest = core.digest(base)
        if "repeat_check" not in scenario:
            scenario["repeat_check"] = bool(streams is not None and streams.get("sched.repeat").random() < params.get("repeat_p", 0.0))
        if scenario["repeat_check"]:
            # schedule element: the same rewrite executed twice in ONE fresh
            # interpreter under the same sigma (state a first rewrite leaves
            # behind in the process - ABI singletons, caches - must not
            # change the second); done in a throw-away interpreter so that
            # the answer is a function of the scenario alone
            hp = dict(params)
            hp.update({"dump_only": True, "use_sigma": {k: sigma[k] for k in ("uuid_seed", "salt", "hashseed")}, "perm_seed": None, "want_dump": True, "repeat_p": 0.0})
            task = {"op": "replay", "engine": "rwsim", "prop": "C11", "scenario": {k: v for k, v in scenario.items() if k != "repeat_check"}, "params": hp}
            r1, r2 = helpers.call_fresh(sigma["hashseed"] % core.HASHSEED_CLASSES, [task, task])
            stats["sched.repeated_in_fresh_interpreter"] += 1
            stats["executions"] += 2
            if r1.get("verdict") == core.Verdict.OK and r2.get("verdict") == core.Verdict.OK and r1["dump_digest"] != r2["dump_digest"]:
                diff = canon.first_diff(_without_addr(r1["dump"]), _without_addr(r2["dump"])) or canon.first_diff(r1["dump"], r2["dump"])
                raise core.Violation(
                    "C11",
                    "dump-diff",
                    {"what": "the same rewrite gave another result when repeated in the same interpreter", "first_difference": diff},
                    {"part": canon.part_of(diff), "repeat": True},
                )
        # interleaving measure for C11: the distinct schedules executed
        meta["interleavings"] = [core.digest(sigma)] + [core.digest(a) for a in scenario["alts"]]
        mine = helpers.my_hashseed()
        for j, alt in enumerate(scenario["alts"]):
            asig = {"uuid_seed": alt["uuid_seed"], "salt": alt["salt"], "hashseed": alt["hashseed"]}
            stats["executions"] += 1
            if alt["hashseed"] % core.HASHSEED_CLASSES == mine % core.HASHSEED_CLASSES:
                d, nperm, reord = _c11_play(scenario, asig, params, None, alt.get("perm_seed"))
                dd = core.digest(d)
                stats["sched.same_hashseed"] += 1
            else:
                hp = dict(params)
                hp.update({"dump_only": True, "use_sigma": asig, "perm_seed": alt.get("perm_seed"), "want_dump": False})
                res = helpers.call(alt["hashseed"] % core.HASHSEED_CLASSES, {"op": "replay", "engine": "rwsim", "prop": "C11", "scenario": scenario, "params": hp})
                if res.get("verdict") != core.Verdict.OK:
                    raise core.Desync("helper run: " + str(res.get("why")))
                dd, nperm, reord, d = res["dump_digest"], res["nperm"], res["reordered"], None
                stats["sched.other_hashseed"] += 1
            stats["sched.permuted_sessions"] += nperm
            if dd != base_digest:
                if d is None:
                    hp["want_dump"] = True
                    res = helpers.call(alt["hashseed"] % core.HASHSEED_CLASSES, {"op": "replay", "engine": "rwsim", "prop": "C11", "scenario": scenario, "params": hp})
                    d = json.loads(json.dumps(res["dump"]))
                    base_cmp = json.loads(json.dumps(base, default=str))
                else:
                    base_cmp = base
                if isinstance(base, tuple) or isinstance(d, (tuple, list)) and d and d[0] == "abort":
                    raise core.Violation("C11", "dump-diff", {"what": "one schedule aborts", "base": str(base)[:200], "alt": str(d)[:200], "alt_index": j}, {"part": "abort", "layout_reordered": bool(reord0 or reord)})
                # differences other than addresses are reported first, so
                # that the known layout finding cannot hide them
                diff = canon.first_diff(_without_addr(base_cmp), _without_addr(d)) or canon.first_diff(base_cmp, d)
                raise core.Violation(
                    "C11",
                    "dump-diff",
                    {"first_difference": diff, "alt_index": j, "alt": alt},
                    {"part": canon.part_of(diff), "layout_reordered": bool(reord0 or reord), "hashseed_differs": alt["hashseed"] != sigma["hashseed"], "permuted": bool(nperm)},
                )
        verdict = core.result_ok(dict(stats))
    except core.Violation as v:
        verdict = core.result_violation(v, dict(stats))
    except core.Rejected as e:
        verdict = {"verdict": core.Verdict.REJECTED, "why": str(e), "stats": dict(stats)}
    except core.Desync as e:
        verdict = {"verdict": core.Verdict.DESYNC, "why": str(e)[:500], "stats": dict(stats)}
    meta["sdig"] = core.digest([scenario["module"], scenario["sessions"]])
    meta["nontrivial"] = stats["ops"] > 0
    verdict["meta"] = meta
    return verdict


def _without_addr(d):
    import copy

    d = copy.deepcopy(d)
    for sec in d.get("sections", []):
        for iv in sec["intervals"]:
            iv.pop("addr", None)
    return d


def _empty_apply(world):
    import gtirb_functions
    import gtirb_rewriting

    m = world.module
    funcs = gtirb_functions.Function.build_functions(m) if "functionEntries" in m.aux_data and "functionBlocks" in m.aux_data else []
    gtirb_rewriting.RewritingContext(m, funcs).apply()


def _identity_check(world, stats, where):
    """apply() without modifications leaves everything unchanged, UUIDs and
    addresses included (apart from recording leafFunctions)."""
    from . import canon, validate

    def snap():
        d = validate.dump_ir(world.ir)
        for md in d["modules"]:
            md["aux"].pop("leafFunctions", None)
        return d

    before = snap()
    try:
        _empty_apply(world)
    except Exception as e:
        raise core.Violation("C10", "empty-apply-diff", {"what": "apply() without modifications raised", "error": f"{type(e).__name__}: {e}"[:300], "where": where}, {"part": "raised:" + type(e).__name__})
    after = snap()
    stats["empty_sessions"] += 1
    if before != after:
        d = canon.first_diff(before, after)
        raise core.Violation("C10", "empty-apply-diff", {"first_difference": d, "where": where}, {"part": _c10_part(d)})
    # idempotent
    _empty_apply(world)
    again = snap()
    stats["empty_sessions"] += 1
    if again != after:
        d = canon.first_diff(after, again)
        raise core.Violation("C10", "not-idempotent", {"first_difference": d, "where": where}, {"part": _c10_part(d)})


def _c10_part(d):
    if d is None:
        return None
    for key in ("contents", "blocks", "symexprs", "addr", "size", "init", "symbols", "cfg", "proxies", "entry"):
        if "/" + key in d:
            return key
    if "/aux/" in d:
        return "aux:" + d.split("/aux/")[1].split("[")[0].split(":")[0].split("/")[0]
    return "other"


def _alignment_state(world):
    m = world.module
    at = m.aux_data.get("alignment")
    out = {}
    if at is not None:
        for n, a in at.data.items():
            if isinstance(n, gtirb_mod().ByteBlock) and n.address is not None:
                out[n.uuid] = (a, n.address % a == 0 if a else True, n.size)
    return out


def _check_patch_alignment(world, model, mt, sess, si, obs):
    """'.align N' inside a patch: the block that starts with the next
    instruction of the patch is recorded with that alignment requirement
    (whether it is also honoured is the alignment-lost check's business).
    Independent of the alignment table: derived from the patch text."""
    if world.desc["isa"] == "arm64":
        return  # (.align is a power of two there; the generator does not use it)
    addr = mt.tok_addr()
    at = world.module.aux_data.get("alignment")
    table = {b.address: a for b, a in at.data.items() if getattr(b, "address", None) is not None and getattr(b, "size", 0)} if at is not None else {}
    starts = {b.address for b in world.module.code_blocks if b.size}
    for c in sess.captures:
        if c["cap"] is None:
            continue
        op = sess.desc["ops"][c["op"]]
        lines = (op.get("patch") or {}).get("lines") or []
        if op["k"] not in ("ins", "rep") or any("raw" in l and not l["raw"].startswith((".align", ".cfi", ".set")) for l in lines):
            continue
        nbytes = 0
        want = None
        for l in lines:
            if "raw" in l and l["raw"].startswith(".align"):
                want = int(l["raw"].split()[1])
                continue
            if "label" in l or "raw" in l:
                continue
            if want is not None:
                tid = f"s{sess.index}o{c['op']}i{c['inv']}.{nbytes}"
                a = addr.get(tid)
                if a is not None and want > 1:
                    if a not in starts or table.get(a, 1) < want:
                        raise core.Violation(
                            "C10",
                            "alignment-lost",
                            {"what": "the alignment requirement a patch states with .align is not recorded for the block that follows it", "alignment": want, "recorded": table.get(a), "block_starts_there": a in starts, "session": si},
                            {"new_block": True, "recorded": False, "layout_reordered": bool(obs.reordered)},
                        )
                want = None
            nbytes += 1


def _paddable_new_block(world, model, mt, sess, block_uuid):
    """Does the aligned block a patch added start one of the temporary
    per-block intervals (other than the first of its partition)?  Only there
    can join_byte_intervals pad in front of it; an aligned block in the
    middle of the block it was spliced into is the documented limitation
    pinned by tests/test_rewriting.py::test_align (finding F40)."""
    import re

    b = next((x for x in world.module.byte_blocks if x.uuid == block_uuid), None)
    if b is None or b.address is None:
        return False
    addr = mt.tok_addr()
    for _, u in model.units():
        for t in u.toks:
            if not t.is_bytes() or addr.get(t.id) != b.address:
                continue
            mo = re.fullmatch(r"s(\d+)o(\d+)i(\d+)\.0", str(t.id))
            if not mo or int(mo.group(1)) != sess.index:
                continue
            oi, inv = int(mo.group(2)), int(mo.group(3))
            caps = [c for c in sess.captures if c["op"] == oi and c["inv"] == inv]
            if len(caps) != 1:
                continue
            c = caps[0]
            same_place = [x for x in sess.captures if x["block"] == c["block"] and x["offset"] == c["offset"]]
            if c["offset"] == 0 and c["block"] not in sess.pre_first and len(same_place) == 1 and sess.desc["ops"][oi]["k"] == "ins":
                return True
    return False


def gtirb_mod():
    import gtirb

    return gtirb


def execute_c10(scenario, params, streams=None):
    """C10: empty sessions anywhere in a history are the identity (and
    idempotent); alignment requirements that held before a session, and
    those of blocks a patch adds, hold after it; padding is minimal, made
    of whole nops after code / zeros after data and covered by blocks.
    Exotic modules (uninitialized tails / gaps, zero-sized and overlapping
    blocks) only see empty sessions."""
    from . import build, driver, gen, observe, oracles, validate

    stats = collections.Counter()
    params = dict(params)
    params["_isa"] = scenario["module"]["isa"]
    params["_fmt"] = scenario["module"]["fmt"]
    sigma = scenario["sigma"]
    meta = {"sigma": core.digest(sigma), "interleavings": []}
    shape = lambda m, sd: gen.shape_ok(m, sd, params) and gen.ops_allowed(m, sd)
    try:
        core.reseed(sigma["uuid_seed"], sigma["salt"])
        world, model = build.build(scenario["module"])
        if scenario["module"].get("exotic"):
            stats["exotic_modules"] += 1
            _exotic_check(world, stats)
            verdict = core.result_ok(dict(stats))
            raise StopIteration
        obs = observe.Obs(world, model)
        oracles.align_model(world, model, obs, "C10")
        if not gen.module_shape_ok(model) or not gen.module_desc_ok(scenario["module"]):
            raise core.Rejected("module violates the generator's shape preconditions")
        _identity_check(world, stats, "before the first session")
        nsess = scenario.get("plan", {}).get("nsessions", len(scenario["sessions"])) if streams else len(scenario["sessions"])
        for si in range(nsess):
            gen_cb = None
            if si < len(scenario["sessions"]):
                sdesc = scenario["sessions"][si]
            else:
                sdesc = None
                hist = streams.get(f"gen.session.{si}")

                def gen_cb(m, hist=hist, si=si):
                    return gen.gen_session(hist, m, params, si)

            pre_align = _alignment_state(world)
            pre_addr = {bi.uuid: bi.address for bi in world.module.byte_intervals}
            sess = driver.run_session(world, model, sdesc, "C10", si, gen_cb=gen_cb, sink=scenario["sessions"], check_shape=shape)
            stats["sessions"] += 1
            stats["ops"] += len(sess.desc["ops"])
            if sess.error is not None:
                raise core.Violation("C10", "aborted", {"exception": type(sess.error).__name__, "message": str(sess.error)[:300], "session": si}, {"exc": type(sess.error).__name__, "msg": _normalize(str(sess.error))})
            driver.apply_to_model(sess)
            model.end_session()
            obs = observe.Obs(world, model)
            mt = oracles.align_model(world, model, obs, "C10")
            meta["interleavings"].append(core.digest(sess.steps))
            # alignment
            post = _alignment_state(world)
            for bu, (a, ok, size) in sorted(post.items(), key=lambda kv: kv[0].int):
                if a <= 1 or ok:
                    continue
                was = pre_align.get(bu)
                if was is None or was[1]:
                    # (did the rewrite move byte intervals that existed before?
                    # padding is computed for the addresses before that)
                    relaid = any(bi.uuid in pre_addr and pre_addr[bi.uuid] != bi.address for bi in world.module.byte_intervals)
                    # a requirement is 'new' when the block did not exist before
                    # or when a patch raised the requirement of the block it was
                    # spliced into at offset 0 (the block object is reused)
                    is_new = was is None or was[0] != a
                    sig = {"new_block": is_new, "zero_sized": size == 0, "layout_reordered": bool(obs.reordered), "relaid": relaid}
                    if is_new:
                        sig["paddable"] = _paddable_new_block(world, model, mt, sess, bu)
                    raise core.Violation("C10", "alignment-lost", {"alignment": a, "new_block": is_new, "zero_sized": size == 0, "session": si}, sig)
            # ... including requirements the table no longer shows (or shows
            # weakened): a block that had to be a-aligned before the rewrite,
            # was, and is still there with contents, is a-aligned afterwards
            live = {b.uuid: b for b in world.module.byte_blocks}
            for bu, (a, ok, size) in sorted(pre_align.items(), key=lambda kv: kv[0].int):
                b = live.get(bu)
                if a <= 1 or not ok or b is None or not b.size or b.address is None or b.address % a == 0:
                    continue
                now = post.get(bu)
                if now is not None and now[0] >= a:
                    continue  # (already judged above)
                relaid = any(bi.uuid in pre_addr and pre_addr[bi.uuid] != bi.address for bi in world.module.byte_intervals)
                sig = {"new_block": False, "zero_sized": False, "layout_reordered": bool(obs.reordered), "relaid": relaid, "requirement": "weakened" if now is not None else "dropped"}
                raise core.Violation("C10", "alignment-lost", {"alignment": a, "now": None if now is None else now[0], "new_block": False, "session": si}, sig)
            _check_patch_alignment(world, model, mt, sess, si, obs)
            stats["aligned_blocks"] += sum(1 for v in post.values() if v[0] > 1)
            stats["pads"] += sum(len(p) for p in mt.pads.values())
            if obs.pad_notes:
                raise core.Violation("C10", "illegal-padding", {"notes": obs.pad_notes[:3], "session": si}, {"kind": "not-minimal-or-misaligned", "layout_reordered": bool(obs.reordered)})
            _identity_check(world, stats, f"after session {si}")
            # the empty sessions changed nothing the model knows about
        scenario["plan"] = {"nsessions": len(scenario["sessions"])}
        verdict = core.result_ok(dict(stats))
    except StopIteration:
        pass
    except core.Violation as v:
        verdict = core.result_violation(v, dict(stats))
    except core.Rejected as e:
        verdict = {"verdict": core.Verdict.REJECTED, "why": str(e), "stats": dict(stats)}
    except core.Desync as e:
        verdict = {"verdict": core.Verdict.DESYNC, "why": str(e)[:500], "stats": dict(stats)}
    meta["sdig"] = core.digest([scenario["module"], scenario["sessions"]])
    meta["nontrivial"] = stats["empty_sessions"] > 0
    verdict["meta"] = meta
    return verdict


def _block_facts(world):
    """uuid -> (address, bytes, size, {absolute address: expression repr})
    for every block, plus the overlap groups of every interval (reference
    grouping: blocks chained by a positive-length overlap, in offset order)"""
    facts = {}
    groups = {}
    for bi in world.module.byte_intervals:
        data = bytes(bi.contents)
        se = {bi.address + off: _expr_repr(e) for off, e in bi.symbolic_expressions.items()} if bi.address is not None else {}
        for b in bi.blocks:
            lo, hi = b.offset, b.offset + b.size
            facts[b.uuid] = (
                b.address,
                data[lo : min(hi, bi.initialized_size)].hex(),
                b.size,
                {a: r for a, r in se.items() if b.address is not None and b.address <= a < b.address + b.size},
            )
        end = None
        gid = None
        for b in sorted(bi.blocks, key=lambda b: (b.offset, b.size)):
            if end is None or end <= b.offset:
                gid = b.uuid
                end = b.offset + b.size
            else:
                end = max(end, b.offset + b.size)
            groups[b.uuid] = gid
    return facts, groups


def _expr_repr(e):
    syms = [s.name for s in e.symbols]
    return f"{type(e).__name__}:{syms}:{getattr(e, 'offset', None)}:{sorted(a.name for a in e.attributes)}"


@contextlib.contextmanager
def _watch_split_state(world, stats):
    """Observe the state between the split and the re-join of the byte
    intervals (the engine step prepare_for_rewriting): every group of
    overlapping blocks sits in its own interval and every block keeps its
    bytes, its address and the symbolic expressions inside it."""
    import gtirb_rewriting.rewriting as rw_mod

    orig = rw_mod.prepare_for_rewriting
    pre, groups = _block_facts(world)

    @contextlib.contextmanager
    def watched(module, nop):
        with orig(module, nop):
            stats["probe.split_state_observed"] += 1
            now, _ = _block_facts(world)
            for u, f in sorted(pre.items(), key=lambda kv: str(kv[0])):
                g = now.get(u)
                if g is None:
                    raise core.Violation("C10", "split-state", {"what": "block left the module during the split"}, {"kind": "lost-block", "exotic": True})
                for name, a, b in (("address", f[0], g[0]), ("bytes", f[1], g[1]), ("size", f[2], g[2]), ("symexprs", f[3], g[3])):
                    if a != b:
                        raise core.Violation("C10", "split-state", {"what": f"a block's {name} changed between split and join", "before": str(a)[:120], "during": str(b)[:120]}, {"kind": name, "exotic": True})
            for bi in world.module.byte_intervals:
                for b in bi.blocks:
                    if b.offset < 0 or b.offset + b.size > bi.size:
                        raise core.Violation("C10", "split-state", {"what": "block outside its interval between split and join", "block": [b.offset, b.size], "interval_size": bi.size}, {"kind": "outside", "exotic": True})
                gs = {groups.get(b.uuid) for b in bi.blocks if b.uuid in groups}
                if len(gs) > 1:
                    raise core.Violation("C10", "split-state", {"what": "blocks that do not overlap share an interval after the split", "groups": len(gs)}, {"kind": "not-split", "exotic": True})
            seen = {}
            for bi in world.module.byte_intervals:
                for b in bi.blocks:
                    g = groups.get(b.uuid)
                    if g is not None and seen.setdefault(g, bi) is not bi:
                        raise core.Violation("C10", "split-state", {"what": "overlapping blocks were put in different intervals"}, {"kind": "group-torn", "exotic": True})
            yield

    rw_mod.prepare_for_rewriting = watched
    try:
        yield
    finally:
        rw_mod.prepare_for_rewriting = orig


def _exotic_check(world, stats):
    """Empty apply() on intervals with gaps, uninitialized tails, zero-sized
    and overlapping blocks: every block keeps bytes, address and attached
    annotations; uninitialized bytes in front of a later block may become
    explicit zero / nop padding (covered by new blocks); the second empty
    apply() changes nothing at all."""
    from . import canon, validate

    def snap():
        d = validate.dump_ir(world.ir)
        for md in d["modules"]:
            md["aux"].pop("leafFunctions", None)
        return d

    before = snap()
    try:
        with _watch_split_state(world, stats):
            _empty_apply(world)
    except core.Violation:
        raise
    except Exception as e:
        raise core.Violation("C10", "empty-apply-diff", {"what": "apply() without modifications raised", "error": f"{type(e).__name__}: {e}"[:300]}, {"part": "raised:" + type(e).__name__, "exotic": True})
    after = snap()
    stats["empty_sessions"] += 1
    nop = world.isa.nop
    # compare with the documented exceptions
    b2, a2 = _strip_intervals(before), _strip_intervals(after)
    if b2 != a2:
        d = canon.first_diff(b2, a2)
        raise core.Violation("C10", "empty-apply-diff", {"first_difference": d}, {"part": _c10_part(d), "exotic": True})
    for mb, ma in zip(before["modules"], after["modules"]):
        for sb, sa in zip(mb["sections"], ma["sections"]):
            ib = {i["uuid"]: i for i in sb["intervals"]}
            ia = {i["uuid"]: i for i in sa["intervals"]}
            if set(ib) != set(ia):
                raise core.Violation("C10", "empty-apply-diff", {"what": "set of byte intervals changed", "section": sb["name"]}, {"part": "intervals", "exotic": True})
            for u, x in ib.items():
                y = ia[u]
                if x["size"] != y["size"] or x["addr"] != y["addr"]:
                    raise core.Violation("C10", "empty-apply-diff", {"what": "interval size/address changed", "before": [x["addr"], x["size"]], "after": [y["addr"], y["size"]]}, {"part": "size", "exotic": True})
                if not y["contents"].startswith(x["contents"]):
                    raise core.Violation("C10", "empty-apply-diff", {"what": "initialized bytes changed"}, {"part": "contents", "exotic": True})
                extra = bytes.fromhex(y["contents"][len(x["contents"]) :])
                if extra:
                    stats["probe.uninit_made_explicit"] += 1
                    if extra.replace(nop, b"").replace(b"\x00", b""):
                        raise core.Violation("C10", "illegal-padding", {"what": "made-explicit bytes are neither zeros nor nops", "bytes": extra.hex()[:40]}, {"kind": "content", "exotic": True})
                    last_block_end = max((o + s for (_, _, o, s) in x["blocks"]), default=0)
                    if len(y["contents"]) // 2 > last_block_end and not any(o + s > x["init"] for (_, _, o, s) in x["blocks"]):
                        # bytes were made explicit although no later block follows them
                        if not any(o >= x["init"] for (_, _, o, s) in y["blocks"]):
                            pass
                bset = set(map(tuple, x["blocks"]))
                aset = set(map(tuple, y["blocks"]))
                if not bset <= aset:
                    raise core.Violation("C10", "empty-apply-diff", {"what": "a block changed offset/size/type", "lost": sorted(bset - aset)[:3]}, {"part": "blocks", "exotic": True})
                for blk in aset - bset:
                    if blk[2] < x["init"] and not any(blk[2] >= o + s or blk[2] + blk[3] <= o for (_, _, o, s) in x["blocks"]):
                        pass
                if x["symexprs"] != y["symexprs"]:
                    raise core.Violation("C10", "empty-apply-diff", {"what": "symbolic expressions changed"}, {"part": "symexprs", "exotic": True})
    _empty_apply(world)
    again = snap()
    stats["empty_sessions"] += 1
    if again != after:
        d = canon.first_diff(after, again)
        raise core.Violation("C10", "not-idempotent", {"first_difference": d}, {"part": _c10_part(d), "exotic": True})


def _strip_intervals(d):
    import copy

    d = copy.deepcopy(d)
    for md in d["modules"]:
        for s in md["sections"]:
            s["intervals"] = len(s["intervals"])
    return d


def execute_c09(scenario, params, streams=None):
    """C09: (a) the last session applied in one apply() versus one
    modification per apply(), in the engine's order: same module up to UUIDs
    and temporary-label suffixes; (b) cache invariants after every engine
    step and (c) live referents at assemble time (driver.check_caches /
    check_assembled_referents, armed by prop == 'C09')."""
    from . import build, canon, driver, gen, observe, oracles

    stats = collections.Counter()
    params = dict(params)
    params["_isa"] = scenario["module"]["isa"]
    params["_fmt"] = scenario["module"]["fmt"]
    params["c09"] = True
    sigma = scenario["sigma"]
    meta = {"sigma": core.digest(sigma), "interleavings": []}
    shape = lambda m, sd: gen.shape_ok(m, sd, params) and gen.ops_allowed(m, sd)

    def play(n, sequential):
        core.reseed(sigma["uuid_seed"], sigma["salt"])
        world, model = build.build(scenario["module"])
        obs = observe.Obs(world, model)
        oracles.align_model(world, model, obs, "C09")
        if not gen.module_shape_ok(model) or not gen.module_desc_ok(scenario["module"]):
            raise core.Rejected("module violates the generator's shape preconditions")
        reordered = False
        steps = []
        for si in range(n):
            last = si == n - 1
            gen_cb = None
            if si < len(scenario["sessions"]):
                sdesc = scenario["sessions"][si]
            else:
                sdesc = None
                hist = streams.get(f"gen.session.{si}")

                def gen_cb(m, hist=hist, si=si):
                    return gen.gen_session(hist, m, params, si)

            if last and sequential:
                # engine order of the modifications of this session
                spans, att = driver.real_view(world, model)
                model.begin_session(spans, att)
                order = []
                for oi, op in enumerate(sdesc["ops"]):
                    exp = driver.expand_op(model, op)
                    key, off, length, _ = exp[0]
                    sp = model.spans[key]
                    order.append(((model.section_order.index(sp.sect), model.sections[sp.sect].index(sp.unit), sp.start), off, oi))
                model.end_session()
                order.sort()
                for k, (_, _, oi) in enumerate(order):
                    sub = {"ops": [sdesc["ops"][oi]], "reg_order": [0], "marker_ids": [oi]}
                    sess = driver.run_session(world, model, sub, "C09", si * 100 + k)
                    steps.extend(sess.steps)
                    if sess.error is not None:
                        return None, ("abort", type(sess.error).__name__, str(sess.error)[:200]), reordered, steps
                    driver.apply_to_model(sess)
                    model.end_session()
                    obs = observe.Obs(world, model)
                    oracles.align_model(world, model, obs, "C09")
                    reordered = reordered or obs.reordered
            else:
                sess = driver.run_session(world, model, sdesc, "C09", si, gen_cb=gen_cb, sink=scenario["sessions"], check_shape=shape)
                steps.extend(sess.steps)
                stats["ops"] += len(sess.desc["ops"]) if not sequential else 0
                if sess.error is not None:
                    return None, ("abort", type(sess.error).__name__, str(sess.error)[:200]), reordered, steps
                driver.apply_to_model(sess)
                model.end_session()
                obs = observe.Obs(world, model)
                oracles.align_model(world, model, obs, "C09")
                reordered = reordered or obs.reordered
        return canon.dump(world, strip_temp=True, with_addresses=False, unit_names=True), None, reordered, steps

    try:
        n = scenario.get("plan", {}).get("nsessions", len(scenario["sessions"])) if streams else len(scenario["sessions"])
        da, ea, ra, sa = play(n, False)
        scenario["plan"] = {"nsessions": len(scenario["sessions"])}
        meta["interleavings"] = [core.digest(sa)]
        last_ops = scenario["sessions"][-1]["ops"] if scenario["sessions"] else []
        stats["last_session_ops"] += len(last_ops)
        stats["executions"] += 1
        if len(last_ops) >= 1:
            db, eb, rb, sb = play(n, True)
            stats["executions"] += 1
            sig_r = {"layout_reordered": bool(ra or rb)}
            if ea and not eb:
                raise core.Violation("C09", "batch-only-abort", {"batch": ea}, {"exc": ea[1], **sig_r})
            if eb and not ea:
                raise core.Violation("C09", "seq-only-abort", {"sequential": eb}, {"exc": eb[1], **sig_r})
            if not ea and da != db:
                d = canon.first_diff(da, db)
                raise core.Violation("C09", "batch-vs-seq-diff", {"first_difference": d}, {"part": canon.part_of(d), **sig_r})
            if ea:
                stats["both_aborted"] += 1
        verdict = core.result_ok(dict(stats))
    except core.Violation as v:
        verdict = core.result_violation(v, dict(stats))
    except core.Rejected as e:
        verdict = {"verdict": core.Verdict.REJECTED, "why": str(e), "stats": dict(stats)}
    except core.Desync as e:
        verdict = {"verdict": core.Verdict.DESYNC, "why": str(e)[:500], "stats": dict(stats)}
    meta["sdig"] = core.digest([scenario["module"], scenario["sessions"]])
    meta["nontrivial"] = stats["last_session_ops"] >= 2
    verdict["meta"] = meta
    return verdict


def execute_c05(scenario, params, streams=None):
    """C05: success-path validator after every session, plus fault
    enumeration: for every session with N patch callbacks, N more executions
    with an exception injected into callback k (fresh build each time)."""
    from . import build, driver, gen, observe, oracles, validate

    stats = collections.Counter()
    params = dict(params)
    params["_isa"] = scenario["module"]["isa"]
    params["_fmt"] = scenario["module"]["fmt"]
    sigma = scenario["sigma"]
    meta = {"sigma": core.digest(sigma), "interleavings": []}

    def play(upto, fault_session=None, plan=None, generate=False):
        """Run sessions [0, upto); returns list of Session objects.  In the
        fault session only the failure-path validator is applied."""
        core.reseed(sigma["uuid_seed"], sigma["salt"])
        world, model = build.build(scenario["module"])
        obs = observe.Obs(world, model)
        oracles.align_model(world, model, obs, "C05")
        if not gen.module_shape_ok(model):
            raise core.Rejected("module violates the generator's shape preconditions")
        out = []
        for si in range(upto):
            gen_cb = None
            if si < len(scenario["sessions"]):
                sdesc = scenario["sessions"][si]
            else:
                sdesc = None
                hist = streams.get(f"gen.session.{si}")

                def gen_cb(m, hist=hist, si=si):
                    sd = gen.gen_session(hist, m, params, si)
                    fr = streams.get(f"faults.{si}")
                    if sd["ops"] and fr.random() < params.get("sampled_fault_p", 0.25):
                        kind = fr.choice(["none", "empty", "syntax", "undef", "redef"])
                        sd["faults"] = {"callback": {str(fr.randint(1, 4)): kind}}
                    return sd

            if si == fault_session:
                sdesc = dict(sdesc)
                sdesc["faults"] = plan
            sess = driver.run_session(
                world, model, sdesc, "C05", si, gen_cb=gen_cb, sink=scenario["sessions"], check_shape=lambda m, sd: gen.shape_ok(m, sd, params) and gen.ops_allowed(m, sd)
            )
            out.append(sess)
            meta["interleavings"].append(core.digest([sess.steps, sorted(sess.fired.items()), plan]))
            for k, v in sess.fired.items():
                stats["fault." + k] += v
            failed = sess.error is not None
            if failed:
                expected = isinstance(sess.error, driver.InjectedFault) or _assembler_refusal(sess)
                if not expected:
                    raise core.Violation(
                        "C05",
                        "aborted",
                        {"exception": type(sess.error).__name__, "message": str(sess.error)[:300], "session": si},
                        {"exc": type(sess.error).__name__, "msg": _normalize(str(sess.error))},
                    )
                stats["failed_sessions"] += 1
                validate.validate(world, sess.pre_blocks, failure=True, cache_cfg=sess.cache_cfg, orig_cfg=sess.orig_cfg, pre_symbol_refs=sess.pre_symbol_refs)
                # one more (empty) session on what was left behind
                import gtirb_functions
                import gtirb_rewriting

                m = world.module
                try:
                    funcs = gtirb_functions.Function.build_functions(m) if "functionEntries" in m.aux_data and "functionBlocks" in m.aux_data else []
                    pre = {b.uuid for b in m.byte_blocks}
                    gtirb_rewriting.RewritingContext(m, funcs).apply()
                    stats["followup_sessions"] += 1
                except Exception:
                    stats["probe.followup_session_raised"] += 1
                else:
                    # (block adjacency at deletion time is not reconstructible
                    # after the failed session left the intervals split)
                    validate.validate(world, pre, failure=False, reordered=True)
                return out, world, model, True
            driver.apply_to_model(sess)
            model.end_session()
            obs = observe.Obs(world, model)
            oracles.align_model(world, model, obs, "C05")
            # (inserted functions live in detached intervals: what was 'next'
            # at deletion time cannot be reconstructed from the final layout)
            validate.validate(world, sess.pre_blocks, failure=False, reordered=obs.reordered or bool(sess.insfn), pre_order=sess.pre_order)
        return out, world, model, False

    try:
        nsess = scenario.get("plan", {}).get("nsessions", len(scenario["sessions"])) if streams else len(scenario["sessions"])
        sessions, world, model, failed = play(nsess)
        stats["sessions"] += len(sessions)
        for sess in sessions:
            stats["ops"] += len(sess.desc["ops"])
            stats["patch_callbacks"] += sess.callback_count
        scenario["plan"] = {"nsessions": len(scenario["sessions"])}
        stats["executions"] += 1
        # fault enumeration
        for si, sess in enumerate(sessions):
            if sess.desc.get("faults"):
                continue
            for k in range(1, min(sess.callback_count, 64) + 1):
                plan = {"callback": {str(k): "raise"}}
                outs, w2, m2, f2 = play(si + 1, fault_session=si, plan=plan)
                stats["executions"] += 1
                stats["enumerated_faults"] += 1
                if not f2:
                    raise core.HarnessError(f"injected fault at callback {k} of session {si} did not fire")
        verdict = core.result_ok(dict(stats))
    except core.Violation as v:
        verdict = core.result_violation(v, dict(stats))
    except core.Rejected as e:
        verdict = {"verdict": core.Verdict.REJECTED, "why": str(e), "stats": dict(stats)}
    except core.Desync as e:
        verdict = {"verdict": core.Verdict.DESYNC, "why": str(e)[:500], "stats": dict(stats)}
    meta["sdig"] = core.digest([scenario["module"], scenario["sessions"]])
    meta["nontrivial"] = stats["patch_callbacks"] > 0
    verdict["meta"] = meta
    return verdict


def _assembler_refusal(sess):
    """An assembler error provoked by an injected bad patch text."""
    from gtirb_rewriting.assembler import AsmSyntaxError, MultipleDefinitionsError, UndefSymbolError

    kinds = set((sess.fault_plan.get("callback") or {}).values())
    if isinstance(sess.error, AsmSyntaxError) and "syntax" in kinds:
        return True
    if isinstance(sess.error, UndefSymbolError) and "undef" in kinds:
        return True
    if isinstance(sess.error, MultipleDefinitionsError) and "redef" in kinds:
        return True
    return False


def execute_generic(prop, scenario, params, streams=None):
    """Pure function of (scenario, sigma, code).  With ``streams`` the
    sessions not yet present in the scenario are generated lazily (they
    depend on the block structure the previous session produced) and
    recorded in the scenario."""
    from . import build, driver, gen, observe, oracles

    sigma = scenario["sigma"]
    core.reseed(sigma["uuid_seed"], sigma["salt"])
    params = dict(params)
    params["_isa"] = scenario["module"]["isa"]
    params["_fmt"] = scenario["module"]["fmt"]
    stats = collections.Counter()
    interleavings = []
    world, model = build.build(scenario["module"])
    nsess = scenario.get("plan", {}).get("nsessions", len(scenario["sessions"])) if streams else len(scenario["sessions"])
    meta = {"sdig": None, "nontrivial": False, "sigma": core.digest(sigma)}
    try:
        # the freshly built module must match its own model
        obs = observe.Obs(world, model)
        mt = oracles.align_model(world, model, obs, prop)
        if not gen.module_shape_ok(model) or not gen.module_desc_ok(scenario["module"]):
            raise core.Rejected("module violates the generator's shape preconditions")
        for si in range(nsess):
            if si < len(scenario["sessions"]):
                sdesc = scenario["sessions"][si]
                gen_cb = None
            else:
                sdesc = None
                hist = streams.get(f"gen.session.{si}")

                def gen_cb(m, hist=hist, si=si):
                    return gen.gen_session(hist, m, params, si)

            pre08 = oracles.c08_pre(mt) if prop == "C08" else None
            pre18 = oracles.c18_pre(world) if prop == "C18" else None
            pre19 = oracles.c19_pre(world) if prop == "C19" else None
            n_recorded = len(scenario["sessions"])
            try:
                sess = driver.run_session(
                    world, model, sdesc, prop, si, gen_cb=gen_cb, sink=scenario["sessions"], check_shape=lambda m, sd: gen.shape_ok(m, sd, params) and gen.ops_allowed(m, sd)
                )
            except core.Desync:
                if sdesc is None and len(scenario["sessions"]) == n_recorded:
                    # the block structure could not be mapped onto the listing
                    # before the next session was even generated: the history
                    # ends here (the scenario - and its replay - has the
                    # sessions that did run)
                    break
                raise
            sess.c08_pre = pre08
            sess.c18_pre = pre18
            if getattr(sess, "c19_pre", None) is None:
                sess.c19_pre = pre19
            stats["sessions"] += 1
            stats["ops"] += len(sess.desc["ops"])
            for op in sess.desc["ops"]:
                stats["op." + op["k"]] += 1
            stats["patch_invocations"] += len(sess.captures)
            for k, v in sess.fired.items():
                stats["fault." + k] += v
            if prop == "C19" and sess.error is not None and type(sess.error).__name__ == "SymbolUsesRemainingError":
                # expected iff some non-forced symbol still has uses; then
                # the C05 failure-path validator must pass
                from . import validate

                unforced = [n for n, f in sess.delsyms.items() if not f]
                driver.apply_to_model(sess)  # the modifications did happen
                model.end_session()
                used = oracles.c19_uses(model, unforced)
                stats["fault.delete-symbol-with-uses"] += 1
                if not used:
                    raise core.Violation("C19", "wrong-error", {"what": "SymbolUsesRemainingError although no non-forced symbol has uses", "symbols": unforced}, {"kind": "spurious-error"})
                validate.validate(world, sess.pre_blocks, failure=True, pre_symbol_refs=None)
                stats["failed_sessions"] += 1
                break
            if prop == "C13" and sess.error is not None and sess.desc.get("faults"):
                kinds = set((sess.desc["faults"].get("callback") or {}).values())
                want = {"undef": "UndefSymbolError", "redef": "MultipleDefinitionsError"}
                got = type(sess.error).__name__
                exp = {want[k] for k in kinds if k in want}
                stats["fault.expected_assembler_error"] += 1
                if got not in exp:
                    raise core.Violation("C13", "wrong-error", {"fault": sorted(kinds), "got": got, "message": str(sess.error)[:200]}, {"kind": sorted(kinds)[0] if kinds else None, "got": got})
                break
            if prop == "C13" and sess.error is None and sess.desc.get("faults") and any(k in ("undef", "redef") for k in (sess.desc["faults"].get("callback") or {}).values()) and (sess.fired.get("callback-undef", 0) + sess.fired.get("callback-redef", 0)):
                raise core.Violation("C13", "wrong-error", {"fault": sess.desc["faults"], "got": "no error"}, {"kind": "missing", "got": "none"})
            if sess.error is not None and type(sess.error).__name__ == "PaddingError":
                # documented failure: the ABI's nop does not fit into the
                # padding an alignment requirement asks for (4-byte nops)
                stats["probe.padding_error"] += 1
                raise core.Rejected("PaddingError: " + str(sess.error))
            if sess.error is not None:
                stats["apply_raised"] += 1
                raise core.Violation(
                    prop,
                    "aborted",
                    {"exception": type(sess.error).__name__, "message": str(sess.error)[:300], "session": si},
                    {"exc": type(sess.error).__name__, "msg": _normalize(str(sess.error))},
                )
            driver.apply_to_model(sess)
            if prop == "C19" and getattr(sess, "c19_used", None):
                raise core.Violation("C19", "wrong-error", {"what": "a non-forced symbol with remaining uses was deleted without SymbolUsesRemainingError", "symbols": sess.c19_used}, {"kind": "missing-error"})
            model.end_session()
            obs = observe.Obs(world, model)
            mt = oracles.align_model(world, model, obs, prop)
            stats["pads"] += sum(len(p) for p in mt.pads.values())
            check = getattr(oracles, "check_" + prop.lower())
            check(mt, sess)
            if prop == "C01" and getattr(sess, "c07_expected", None) is not None:
                # every scope registration was applied exactly once where
                # the scope says (C01: 'each patch's bytes appear exactly once
                # at the requested position')
                try:
                    oracles.check_c07(mt, sess)
                except core.Violation as v:
                    cls = {"not-invoked": "patch-missing", "invoked-twice": "patch-duplicated"}.get(v.vclass)
                    if cls and not v.sig.get("layout_reordered"):
                        raise core.Violation("C01", cls, v.witness, {"via": "scope", **{k: v.sig[k] for k in v.sig if k in ("scope", "pos", "fpos", "layout_reordered")}})
            for dv in mt.deferred:
                stats["probe.units_reordered_by_layout"] += 1
                if dv.prop == prop:
                    raise dv
            interleavings.append(core.digest(sess.steps))
            stats["engine_steps"] += len(sess.steps)
        verdict = core.result_ok(dict(stats))
    except core.Violation as v:
        verdict = core.result_violation(v, dict(stats))
    except core.Rejected as e:
        verdict = {"verdict": core.Verdict.REJECTED, "why": str(e), "stats": dict(stats)}
    except core.Desync as e:
        verdict = {"verdict": core.Verdict.DESYNC, "why": str(e)[:500], "stats": dict(stats)}
    meta["sdig"] = core.digest([scenario["module"], scenario["sessions"]])
    meta["nontrivial"] = stats["ops"] > 0
    meta["interleavings"] = interleavings
    verdict["meta"] = meta
    return verdict


def _normalize(msg):
    import re

    msg = re.sub(r"[0-9a-f]{8}-[0-9a-f]{4}-[0-9a-f]{4}-[0-9a-f]{4}-[0-9a-f]{12}", "<uuid>", msg)
    msg = re.sub(r"0x[0-9a-f]+", "<hex>", msg)
    msg = re.sub(r"\d+", "<n>", msg)
    return msg[:120]


def describe(scenario):
    if scenario.get("kind") == "asm":
        from .. import asmsim

        return asmsim.describe(scenario)
    m = scenario["module"]
    return {
        "isa": m["isa"],
        "fmt": m["fmt"],
        "pie": m.get("pie"),
        "blocks": sum(len(u["blocks"]) for s in m["sections"] for u in s["units"]),
        "sessions": [[_op_str(op) for op in s["ops"]] for s in scenario["sessions"]],
        "sigma": scenario["sigma"],
    }


def _op_str(op):
    k = op["k"]
    if k == "ins":
        return f"ins {op['side']} {op['at']}: " + _patch_str(op["patch"])
    if k == "del":
        return f"del {op['from']}..{op['to']}"
    if k == "delblock":
        return f"delblock {op['tok']} proxy={op.get('proxy')}"
    if k == "rep":
        return f"rep {op['from']}..{op['to']}: " + _patch_str(op["patch"])
    if k == "delfn":
        return f"delfn {op['func']}"
    if k == "insfn":
        return f"insfn {op['name']}: " + _patch_str(op["patch"])
    if k == "reg":
        return f"reg {json.dumps(op['scope'])}: " + _patch_str(op["patch"])
    if k == "retarget":
        return f"retarget {op['a']} -> {op['b']}"
    if k == "delsym":
        return f"delsym {op['name']} force={op.get('force')}"
    return json.dumps(op)[:80]


def _patch_str(p):
    if "bytes" in p:
        return "bytes " + p["bytes"]
    out = []
    for ln in p["lines"]:
        if "label" in ln:
            out.append(ln["label"] + ":")
        elif "raw" in ln:
            out.append(ln["raw"])
        elif "marker" in ln:
            out.append("marker")
        else:
            out.append(ln["v"] + ((" " + ln["t"]) if ln.get("t") else ""))
    if p.get("other"):
        out.append("[" + p["other"]["sect"] + ": " + "; ".join(l.get("raw") or (l["label"] + ":") for l in p["other"]["lines"]) + "]")
    return "; ".join(out)


# --------------------------------------------------------------------------
# shrinking


def stabilize(prop, scenario):
    """A scenario whose violation did not reproduce: for C11 ask for the
    execution that carries its own history (repeat in a fresh interpreter)."""
    if prop != "C11" or scenario.get("kind") == "asm" or scenario.get("repeat_check"):
        return None
    c = copy.deepcopy(scenario)
    c["repeat_check"] = True
    return c


def shrink_candidates(prop, scenario):
    """Smaller scenarios, most aggressive first."""
    if scenario.get("kind") == "asm":
        from .. import asmsim

        yield from asmsim.shrink_candidates(prop, scenario)
        return
    sc = scenario
    # drop trailing sessions / whole sessions
    for i in reversed(range(len(sc["sessions"]))):
        if len(sc["sessions"]) > 1:
            c = copy.deepcopy(sc)
            del c["sessions"][i]
            c["plan"] = {"nsessions": len(c["sessions"])}
            yield c
    # drop ops
    for si, s in enumerate(sc["sessions"]):
        n = len(s["ops"])
        if n > 2:
            for half in (range(0, n // 2), range(n // 2, n)):
                c = copy.deepcopy(sc)
                _drop_ops(c["sessions"][si], set(half))
                yield c
        for oi in range(n):
            c = copy.deepcopy(sc)
            _drop_ops(c["sessions"][si], {oi})
            yield c
    # knobs off
    for si, s in enumerate(sc["sessions"]):
        if s.get("debug_log"):
            c = copy.deepcopy(sc)
            del c["sessions"][si]["debug_log"]
            yield c
    # simplify patches
    for si, s in enumerate(sc["sessions"]):
        for oi, op in enumerate(s["ops"]):
            p = op.get("patch")
            if p and "lines" in p and len(p["lines"]) > 1:
                for li in range(len(p["lines"])):
                    c = copy.deepcopy(sc)
                    del c["sessions"][si]["ops"][oi]["patch"]["lines"][li]
                    yield c
            if p and p.get("constraints"):
                c = copy.deepcopy(sc)
                c["sessions"][si]["ops"][oi]["patch"]["constraints"] = {}
                yield c
            if p and p.get("other") and not any(l.get("t") == p["other"]["lines"][0].get("label") for l in p["lines"]):
                c = copy.deepcopy(sc)
                del c["sessions"][si]["ops"][oi]["patch"]["other"]
                yield c
    # shrink the module: drop blocks nobody refers to, drop items
    yield from _module_candidates(sc)
    # simplify sigma
    if sc["sigma"].get("salt"):
        c = copy.deepcopy(sc)
        c["sigma"]["salt"] = 0
        yield c
    # drop faults
    for si, s in enumerate(sc["sessions"]):
        if s.get("faults"):
            c = copy.deepcopy(sc)
            c["sessions"][si]["faults"] = {}
            yield c


def _drop_ops(s, idxs):
    keep = [i for i in range(len(s["ops"])) if i not in idxs]
    remap = {old: new for new, old in enumerate(keep)}
    s["ops"] = [s["ops"][i] for i in keep]
    s["reg_order"] = [remap[i] for i in (s.get("reg_order") or []) if i in remap]
    if s.get("passes"):
        s["passes"] = [[remap[i] for i in p if i in remap] for p in s["passes"]]


def _referenced_tokens(sc):
    used = set()
    for s in sc["sessions"]:
        for op in s["ops"]:
            for k in ("at", "from", "to", "tok"):
                if k in op:
                    used.add(op[k])
    return used


def _referenced_labels(sc):
    used = set()

    def walk(x):
        if isinstance(x, dict):
            for k, v in x.items():
                if k in ("t", "t2", "a", "b", "name") and isinstance(v, str):
                    used.add(v)
                walk(v)
        elif isinstance(x, list):
            for v in x:
                walk(v)

    walk(sc["sessions"])
    for sec in sc["module"]["sections"]:
        for u in sec["units"]:
            for b in u["blocks"]:
                for it in b["items"]:
                    for k in ("t", "t2"):
                        if it.get(k):
                            used.add(it[k])
                for k, dirs in (b.get("cfi") or {}).items():
                    for d in dirs:
                        if d[2]:
                            used.add(d[2])
    for f in sc["module"].get("funcs", {}).values():
        used.add(f["name"])
    for a, b in sc["module"].get("symbol_forwarding", []):
        used.update([a, b])
    st = sc["module"].get("symtabs") or {}
    used.update(st.get("elf_info", []))
    used.update(st.get("tabidx", {}))
    used.update((st.get("versions") or {}).get("entries", {}))
    used.update(st.get("pe_imports", []))
    used.update(st.get("pe_exports", []))
    return used


def _module_candidates(sc):
    used_toks = _referenced_tokens(sc)
    used_labels = _referenced_labels(sc)
    mod = sc["module"]
    # drop whole blocks
    for si, sec in enumerate(mod["sections"]):
        for ui, u in enumerate(sec["units"]):
            for bi, b in enumerate(u["blocks"]):
                if any(it["id"] in used_toks for it in b["items"]):
                    continue
                if any(l in used_labels for l in b.get("labels", []) + b.get("end_labels", [])):
                    continue
                if b["id"] in (mod.get("entry_point"), mod.get("dt_init"), mod.get("dt_fini")) or b["id"] in (mod.get("safe_seh") or ()):
                    continue
                if len(u["blocks"]) == 1:
                    continue
                c = copy.deepcopy(sc)
                del c["module"]["sections"][si]["units"][ui]["blocks"][bi]
                _relayout(c["module"])
                yield c
    # drop unused labels
    for si, sec in enumerate(mod["sections"]):
        for ui, u in enumerate(sec["units"]):
            for bi, b in enumerate(u["blocks"]):
                for key in ("labels", "end_labels"):
                    for li, l in enumerate(b.get(key, [])):
                        if l not in used_labels:
                            c = copy.deepcopy(sc)
                            del c["module"]["sections"][si]["units"][ui]["blocks"][bi][key][li]
                            yield c
    # drop items inside blocks (not the last item: keeps terminators last)
    for si, sec in enumerate(mod["sections"]):
        for ui, u in enumerate(sec["units"]):
            for bi, b in enumerate(u["blocks"]):
                if len(b["items"]) < 2 or b.get("cfi"):
                    continue
                for ii, it in enumerate(b["items"][:-1]):
                    if it["id"] in used_toks:
                        continue
                    c = copy.deepcopy(sc)
                    del c["module"]["sections"][si]["units"][ui]["blocks"][bi]["items"][ii]
                    _relayout(c["module"])
                    yield c
    # drop alignment, aux
    for si, sec in enumerate(mod["sections"]):
        for ui, u in enumerate(sec["units"]):
            for bi, b in enumerate(u["blocks"]):
                for key in ("align", "cfi", "blockaux"):
                    if b.get(key):
                        c = copy.deepcopy(sc)
                        del c["module"]["sections"][si]["units"][ui]["blocks"][bi][key]
                        yield c


def _relayout(mod):
    """Recompute unit addresses after removing content."""
    from . import gen

    addr = 0x1000
    for sec in mod["sections"]:
        for u in sec["units"]:
            u["addr"] = addr
            addr += sum(gen._block_size(mod["isa"], b) for b in u["blocks"])
        gen._fix_alignment(mod["isa"], sec["units"])
        addr = (addr + 0xFFF) & ~0xFFF


def debug_dump(prop, scenario, params):
    """Text dump of the real module and the model before/after each
    session (triage only)."""
    from . import build, debug, driver, observe, oracles

    out = []
    sigma = scenario["sigma"]
    core.reseed(sigma["uuid_seed"], sigma["salt"])
    world, model = build.build(scenario["module"])
    out.append(debug.dump_real(world))
    for si, s in enumerate(scenario["sessions"]):
        out.append(str([_op_str(o) for o in s["ops"]]))
        sess = driver.run_session(world, model, s, prop, si)
        out.append(f"error {sess.error!r}")
        if sess.error is not None:
            break
        driver.apply_to_model(sess)
        model.end_session()
        out.append(f"--- after session {si}")
        out.append(debug.dump_real(world))
        out.append(debug.dump_model(model))
        try:
            obs = observe.Obs(world, model)
            oracles.align_model(world, model, obs, prop)
        except Exception as e:
            out.append(f"align: {e!r}")
            break
    return "\n".join(out)
