"""Oracles of the rewrite world simulator, one per property."""

import gtirb

from .. import core
from . import expect, observe


class Matched:
    """Model units aligned with real intervals (shared by all oracles)."""

    def __init__(self, world, model, obs):
        self.world = world
        self.model = model
        self.obs = obs
        self.unit_obs = {}  # unit id -> IntervalObs
        self.posmap = {}  # unit id -> [real offset per token] + end
        self.pads = {}
        self.failure = None
        self.deferred = []

    def tok_addr(self):
        """tok id -> real address (byte tokens and labels alike)"""
        out = {}
        for s, u in self.model.units():
            o = self.unit_obs.get(u.id)
            if o is None or o.addr is None:
                continue
            pm = self.posmap[u.id]
            for t, p in zip(u.toks, pm):
                out[t.id] = o.addr + p
        return out


def align_model(world, model, obs, armed):
    """Adopt new units and match bytes.  Raises C01 violations when C01 is
    armed, Desync otherwise."""
    try:
        _reconcile_proxies(world, model)
        deferred = observe.adopt_new_units(world, model, obs, armed)
        mt = Matched(world, model, obs)
        mt.deferred = deferred
        for sname in model.section_order:
            units = model.sections[sname]
            real = {o.unit: o for o in obs.sections.get(sname, [])}
            for u in units:
                o = real.get(u.id)
                if o is None:
                    if u.bytes() or any(t.kind == "label" for t in u.toks):
                        if not u.bytes():
                            continue
                        raise core.Violation("C01", "byte-mismatch", {"what": "unit has no byte interval any more", "unit": u.id}, {"where": "unit-lost"})
                    continue
                res, err = observe.match_unit(world, u, o, obs)
                if res is None:
                    err["unit"] = u.id
                    err["section"] = sname
                    tok = err.get("token")
                    origin = None
                    if tok is not None:
                        loc = model.find(tok)
                        origin = loc[1].toks[loc[2]].origin if loc else None
                    raise core.Violation("C01", "byte-mismatch", err, {"where": "orig" if origin == "orig" else "patch"})
                mt.unit_obs[u.id] = o
                mt.posmap[u.id], mt.pads[u.id] = res
                if mt.pads[u.id]:
                    _absorb_padding(model, u, o, mt)
            for o in obs.sections.get(sname, []):
                if o.unit not in {u.id for u in units} and o.data:
                    raise core.Violation("C01", "byte-mismatch", {"what": "interval unknown to the model", "section": sname}, {"where": "unit-extra"})
        for sname, lst in obs.sections.items():
            if sname not in model.sections and any(o.data for o in lst):
                raise core.Violation("C01", "byte-mismatch", {"what": "unexpected section with bytes", "section": sname}, {"where": "section-extra"})
        return mt
    except core.Violation as v:
        if armed == "C01":
            raise
        if armed == "C07" and v.sig.get("where") in ("patch", "orig"):
            # a marker that is not where the InsertionContext said, or
            # same-location patches out of registration order
            raise core.Violation("C07", "order", v.witness, {"kind": "bytes"})
        raise core.Desync(f"bytes differ from the model ({v.vclass}: {v.witness})")


def _reconcile_proxies(world, model):
    """A label that sat directly in front of a block deleted with
    retarget_to_proxy may legitimately have gone to the proxy with it (in
    the listing it is indistinguishable from the block's own labels)."""
    import gtirb

    if not model.proxy_ambiguous:
        return
    byname = {}
    for s in world.module.symbols:
        byname.setdefault(s.name, []).append(s)
    for name in sorted(model.proxy_ambiguous):
        syms = byname.get(name, [])
        if len(syms) == 1 and isinstance(syms[0].referent, gtirb.ProxyBlock):
            for _, u in model.units():
                u.toks = [t for t in u.toks if not (t.kind == "label" and t.name == name)]
            model.proxy_syms.add(name)
    model.proxy_ambiguous = set()


def _absorb_padding(model, u, o, mt):
    """Validated padding becomes part of the listing (as 'pad' tokens) so
    that later sessions see the same bytes as the implementation."""
    from .model import Tok

    pm = mt.posmap[u.id]
    new_toks = []
    new_pm = []
    pads = dict(mt.pads[u.id])
    nop = mt.world.isa.nop
    done = set()
    import gtirb

    realpos = {}
    for s in mt.world.module.symbols:
        r = s.referent
        if isinstance(r, gtirb.ByteBlock) and r.address is not None:
            realpos.setdefault(s.name, []).append(r.address + (r.size if s.at_end else 0))
    def emit_with_labels(pr, pl):
        # labels at this boundary stay on the side of the padding where
        # the implementation has them
        held = []
        while new_toks and not new_toks[-1].is_bytes() and new_pm[-1] == pr:
            held.append((new_toks.pop(), new_pm.pop()))
        held.reverse()

        def stays(lt):
            if lt.kind == "entry":
                # marks the (aligned) block that follows the padding
                return False
            if lt.kind != "label":
                return True
            return o.addr is None or (o.addr + pr) in realpos.get(lt.name, [o.addr + pr])

        before = [(lt, lp) for lt, lp in held if stays(lt)]
        after = [(lt, lp) for lt, lp in held if not stays(lt)]
        for lt, lp in before:
            new_toks.append(lt)
            new_pm.append(lp)
        _emit_pad(model, new_toks, new_pm, o, pr, pl, nop)
        for lt, lp in after:
            new_toks.append(lt)
            new_pm.append(pr + pl)

    for t, p in zip(u.toks, pm):
        if t.is_bytes():
            for pr, pl in pads.items():
                if pr + pl == p and pr not in done:
                    done.add(pr)
                    emit_with_labels(pr, pl)
        new_toks.append(t)
        new_pm.append(p)
    for pr, pl in pads.items():
        if pr not in done:
            emit_with_labels(pr, pl)
    new_pm.append(pm[-1])
    u.toks = new_toks
    mt.posmap[u.id] = new_pm


def _emit_pad(model, toks, pm, o, pr, pl, nop):
    from .model import Tok

    run = o.data[pr : pr + pl]
    if run == nop * (pl // len(nop)) and pl % len(nop) == 0 and any(k == "code" and off <= pr < off + size for (b, off, size, k) in o.blocks):
        for i in range(0, pl, len(nop)):
            toks.append(Tok("insn", model.fresh_id("pad"), b=nop, ikind="pad", origin="pad"))
            pm.append(pr + i)
    else:
        toks.append(Tok("data", model.fresh_id("pad"), b=run, origin="pad"))
        pm.append(pr)


# ------------------------------------------------------------------ C01


def check_c01(mt, sess):
    """Bytes were already matched by align_model; additionally every block
    must lie inside its interval's contents and padding must be covered."""
    # each patch invocation's bytes exactly once: follows from token-wise
    # matching (every model token matched exactly once, nothing left over)
    return


# ------------------------------------------------------------------ C02


def _empty_interval_in_gap(mt, sname, u, i, bi):
    model = mt.model
    uid = mt.world.unit_of_interval.get(str(bi.uuid))
    units = model.sections[sname]
    ids = [x.id for x in units]
    if uid not in ids:
        return False
    k = ids.index(uid)
    ui = units.index(u)
    # bytes between the label and that unit?
    if k == ui:
        return True
    if k < ui:
        # everything from unit k+1 .. the label must be free of bytes
        for x in units[k + 1 : ui]:
            if x.bytes():
                return False
        return not any(t.is_bytes() for t in u.toks[:i])
    for x in units[ui + 1 : k]:
        if x.bytes():
            return False
    return not any(t.is_bytes() for t in u.toks[i:])


def _equivalent_positions(mt, sname, u, i):
    """Addresses that denote the same listing position as token i of unit u:
    the end of the previous byte token and the start of the next one, when
    only zero-width tokens (and unit boundaries / address gaps) separate
    them."""
    model = mt.model
    units = model.sections[sname]
    ui = units.index(u)
    out = set()
    # to the right
    found = False
    for k, uu in enumerate(units[ui:]):
        o = mt.unit_obs.get(uu.id)
        toks = uu.toks[i:] if k == 0 else uu.toks
        base = i if k == 0 else 0
        lo = mt.posmap[uu.id][base] if k == 0 and o is not None and base < len(mt.posmap[uu.id]) else 0
        hi_pos = None
        for j, t in enumerate(toks):
            if t.is_bytes():
                if o is not None and o.addr is not None:
                    out.add(o.addr + mt.posmap[uu.id][base + j])
                    hi_pos = mt.posmap[uu.id][base + j]
                if t.origin == "pad":
                    # absorbed alignment padding is transparent
                    if o is not None and o.addr is not None:
                        out.add(o.addr + mt.posmap[uu.id][base + j] + len(t.b))
                    hi_pos = None
                    continue
                found = True
                break
        if o is not None and o.addr is not None:
            # validated padding on the way is transparent
            for pr, pl in mt.pads.get(uu.id) or ():
                if pr >= lo and (hi_pos is None or pr + pl <= hi_pos):
                    out.add(o.addr + pr)
                    out.add(o.addr + pr + pl)
        if found:
            break
    # to the left
    found = False
    for k, uu in enumerate(reversed(units[: ui + 1])):
        o = mt.unit_obs.get(uu.id)
        hi = i if k == 0 else len(uu.toks)
        for j in range(hi - 1, -1, -1):
            t = uu.toks[j]
            if t.is_bytes():
                if o is not None and o.addr is not None:
                    out.add(o.addr + mt.posmap[uu.id][j] + len(t.b))
                if t.origin == "pad":
                    if o is not None and o.addr is not None:
                        out.add(o.addr + mt.posmap[uu.id][j])
                    continue
                found = True
                break
        if found:
            break
    return out


def check_c02(mt, sess):
    world, model = mt.world, mt.model
    m = world.module
    addr = mt.tok_addr()
    byname = {}
    for s in m.symbols:
        byname.setdefault(s.name, []).append(s)
    live_blocks = set()
    for b in m.byte_blocks:
        live_blocks.add(b.uuid)
    # no symbol may refer to a block outside the module
    for s in m.symbols:
        r = s.referent
        if isinstance(r, gtirb.ByteBlock) and (r.uuid not in live_blocks or r.module is not m):
            raise core.Violation("C02", "label-in-removed-block", {"symbol": s.name}, {"kind": "removed-block"})
        if isinstance(r, gtirb.ProxyBlock) and r not in m.proxies:
            raise core.Violation("C02", "proxy-not-in-module", {"symbol": s.name}, {"kind": "proxy"})
    seen = set()
    for sname, u in model.units():
        o = mt.unit_obs.get(u.id)
        if o is None:
            continue
        pm = mt.posmap[u.id]
        pads = dict(mt.pads[u.id])
        for i, t in enumerate(u.toks):
            if t.kind != "label":
                continue
            seen.add(t.name)
            syms = byname.get(t.name, [])
            if len(syms) != 1:
                raise core.Violation("C02", "label-position", {"symbol": t.name, "what": f"{len(syms)} symbols with this name"}, {"kind": "multiplicity"})
            s = syms[0]
            r = s.referent
            if not isinstance(r, gtirb.ByteBlock):
                raise core.Violation(
                    "C02",
                    "label-position",
                    {"symbol": t.name, "what": "label is no longer attached to a block", "referent": type(r).__name__},
                    {"kind": "lost-referent", "origin": "orig" if t.origin == "orig" else "patch"},
                )
            if r.address is None:
                raise core.Violation("C02", "label-position", {"symbol": t.name, "what": "referent has no address"}, {"kind": "no-address"})
            real = r.address + (r.size if s.at_end else 0)
            want = o.addr + pm[i]
            ok = real == want or real in _equivalent_positions(mt, sname, u, i)
            if not ok and r.size == 0 and r.byte_interval is not None and r.byte_interval.size == 0:
                # zero-sized block kept in an emptied interval: same listing
                # position iff that interval sits in the same gap
                ok = _empty_interval_in_gap(mt, sname, u, i, r.byte_interval)
            if not ok:
                # a label at a padded boundary may sit on either side
                before = want - o.addr
                for (pr, pl) in mt.pads[u.id]:
                    if pr + pl == before and real == o.addr + pr:
                        ok = True
                    if pr == before and real == o.addr + pr + pl:
                        ok = True
            if not ok:
                raise core.Violation(
                    "C02",
                    "label-position" if t.origin == "orig" else "patch-label-position",
                    {"symbol": t.name, "expected_addr": want, "real_addr": real, "at_end": bool(s.at_end), "unit": u.id},
                    {"kind": "moved", "origin": "orig" if t.origin == "orig" else "patch", "layout_reordered": bool(mt.obs.reordered)},
                )
    for name in model.proxy_syms:
        for s in byname.get(name, []):
            if not isinstance(s.referent, gtirb.ProxyBlock):
                raise core.Violation("C02", "label-position", {"symbol": name, "what": "expected a proxy referent", "referent": repr(s.referent)[:80]}, {"kind": "not-proxy"})


# ------------------------------------------------------------------ C03


def flatten_cfg(world, md=None):
    """Real CFG flattened to instructions.  Returns (edges, buried, blocks)
    edges: {src last-insn address: set of (type, cond, direct, tgtkey)}
    tgtkey: ('addr', a) | ('proxy', frozenset(symbol names))"""
    m = world.module
    isa = world.isa
    md = md or isa.cs()
    edges = {}
    buried = []
    last_of = {}
    for b in m.code_blocks:
        if b.size == 0 or b.address is None:
            continue
        data = bytes(b.byte_interval.contents[b.offset : b.offset + b.size])
        insns = list(md.disasm(data, b.address))
        if sum(i.size for i in insns) != b.size:
            buried.append(("undecodable", b.address))
            continue
        for i in insns[:-1]:
            if isa.cs_kind(i) != "plain":
                buried.append((isa.cs_kind(i), i.address))
        last_of[b.uuid] = insns[-1].address
    live = {b.uuid for b in m.byte_blocks} | {p.uuid for p in m.proxies}
    dangling = []
    for e in world.ir.cfg:
        for n in (e.source, e.target):
            if n.uuid not in live:
                dangling.append((type(n).__name__, str(e.label.type.name if e.label else None)))
        src = e.source
        if not isinstance(src, gtirb.CodeBlock) or src.uuid not in last_of:
            continue  # zero-sized blocks: out-edges ignored (documented)
        t = e.target
        if isinstance(t, gtirb.ProxyBlock):
            tk = ("proxy", frozenset(s.name for s in t.references))
        elif isinstance(t, gtirb.ByteBlock):
            ta = t.address
            if t.size == 0 and isinstance(t, gtirb.CodeBlock):
                # a kept zero-sized block denotes the listing position of the
                # next byte of its section (its own interval may be empty)
                ta = _next_byte_address(t)
            tk = ("addr", ta) if isinstance(t, gtirb.CodeBlock) else ("data", ta)
        else:
            tk = ("other", repr(t))
        lab = e.label
        edges.setdefault(last_of[src.uuid], set()).add(
            (lab.type.name if lab else None, bool(lab.conditional) if lab else None, bool(lab.direct) if lab else None, tk)
        )
    return edges, buried, dangling, last_of


def _next_byte_address(block):
    from .driver import sorted_intervals

    bi = block.byte_interval
    sect = bi.section
    ivs = sorted_intervals(sect)
    idx = next(i for i, x in enumerate(ivs) if x is bi)
    if block.offset < bi.size:
        return block.address
    for x in ivs[idx + 1 :]:
        if x.size and x.address is not None:
            return x.address
    ends = [x.address + x.size for x in ivs if x.address is not None]
    return max(ends) if ends else block.address


def check_c03(mt, sess):
    world, model = mt.world, mt.model
    has_pmark = any(t.kind == "pmark" for _, u in model.units() for t in u.toks)
    addr = mt.tok_addr()
    real, buried, dangling, last_of = flatten_cfg(world)
    if dangling:
        raise core.Violation("C03", "dangling-endpoint", {"edges": sorted(dangling)[:5]}, {"kind": dangling[0][0]})
    if buried:
        raise core.Violation("C03", "buried-terminator", {"insns": sorted(buried, key=str)[:5]}, {"kind": buried[0][0]})
    last_addrs = set(last_of.values())
    exp = {}
    toks = {}
    for s, u in model.units():
        for t in u.toks:
            toks[t.id] = t
    # instructions directly in front of a place where a block was deleted
    # with retarget_to_proxy may fall through to that proxy (documented)
    proxy_fall = set()
    after_pmark = set()
    for sname in model.section_order:
        last = None
        armed_src = None
        armed = False
        for u in model.sections[sname]:
            for t in u.toks:
                if t.is_bytes() and t.origin == "pad":
                    continue
                if t.is_bytes():
                    if armed_src is not None:
                        proxy_fall.add(armed_src)
                    if armed:
                        after_pmark.add(t.id)
                    armed_src = None
                    armed = False
                    last = t
                elif t.kind == "pmark":
                    armed = True
                    if last is not None:
                        armed_src = last.id
    entry_addrs = set()
    fe = world.module.aux_data.get("functionEntries")
    if fe is not None:
        for bs in fe.data.values():
            entry_addrs.update(b.address for b in bs if b.address is not None)
    entry_toks = {tid for tid, ta in addr.items() if ta in entry_addrs and tid in toks and toks[tid].is_bytes()}
    for src, typ, cond, direct, tgt in expected_edges_skip_pads(model, entry_toks):
        a = addr.get(src)
        if a is None:
            continue
        if tgt[0] == "tok":
            ta = addr.get(tgt[1])
            tk = ("addr", ta)
            if typ == "Fallthrough" and src in proxy_fall:
                tk = ("addr-or-proxy", ta)
            if typ.startswith("Return") and tgt[1] in after_pmark:
                # a return site that was deleted with retarget_to_proxy: the
                # return may lead there, to the proxy, or have been dropped
                # together with other proxy return edges
                tk = ("addr-or-proxy", ta)
                typ = "Return?"
        elif tgt[0] == "end":
            tk = ("addr-end", tgt[1])
        elif tgt[0] == "sym":
            tk = ("proxy", tgt[1])
        else:
            tk = ("proxy", None)
        exp.setdefault(a, set()).add((typ, cond, direct, tk))
    section_end = {}
    for sname, lst in mt.obs.sections.items():
        ends = [o.addr + o.size for o in lst if o.addr is not None]
        if ends:
            section_end[sname] = max(ends)

    def origin_of(a):
        for tid, ta in addr.items():
            t = toks.get(tid)
            if ta == a and t is not None and t.is_bytes():
                return "orig" if t.origin == "orig" else ("pad" if t.origin == "pad" else "patch")
        return "?"

    # alignment padding is transparent: an edge into a padding run counts
    # as an edge to the first instruction after it
    pad_next = {}
    for sname in model.section_order:
        pending = []
        for u in model.sections[sname]:
            for t in u.toks:
                if not t.is_bytes():
                    continue
                if t.origin == "pad":
                    pending.append(t)
                else:
                    for ptok in pending:
                        if ptok.id in addr and t.id in addr:
                            pad_next[addr[ptok.id]] = addr[t.id]
                    pending = []
    if pad_next:
        for a in list(real):
            real[a] = {(x[0], x[1], x[2], ("addr", pad_next[x[3][1]]) if x[3][0] == "addr" and x[3][1] in pad_next else x[3]) for x in real[a]}
    for a in sorted(set(exp) | set(real)):
        e = exp.get(a, set())
        r = real.get(a, set())
        if a not in last_addrs:
            # instruction in the middle of a block: only an implicit
            # fallthrough is possible
            bad = [x for x in e if x[0] != "Fallthrough"]
            if bad:
                raise core.Violation("C03", "buried-terminator", {"insn": a, "expected": sorted(map(str, bad))}, {"kind": "model-terminator-mid-block"})
            continue
        # normalise and compare
        miss, spur = _edge_diff(e, r, section_end)
        if spur and has_pmark:
            # a call whose return site was deleted with retarget_to_proxy
            # returns 'to the proxy': such a Return edge is not demanded and
            # not objected to
            spur = {y for y in spur if not (y[0] == "Return" and y[3][0] == "proxy")}
        if miss or spur:
            kinds = sorted({x[0] for x in miss} | {x[0] for x in spur})
            tok_kind = next((toks[tid].ikind for tid, ta in addr.items() if ta == a and tid in toks and toks[tid].kind == "insn"), None)
            cls = "missing-edge" if miss and not spur else ("spurious-edge" if spur and not miss else "wrong-target")
            raise core.Violation(
                "C03",
                cls,
                {"insn": a, "insn_kind": tok_kind, "missing": sorted(map(str, miss)), "spurious": sorted(map(str, spur))},
                {"types": kinds, "insn_kind": tok_kind, "origin": origin_of(a), "layout_reordered": bool(mt.obs.reordered)},
            )


def expected_edges_skip_pads(model, entry_toks=None):
    """expected_edges with padding tokens made transparent"""
    pads = []
    for s, u in model.units():
        keep = []
        for t in u.toks:
            if t.is_bytes() and t.origin == "pad":
                pads.append((u, t))
            keep.append(t)
    if not pads:
        return expect.expected_edges(model, entry_toks)
    # orphaned padding at the end of a section (what it aligned was deleted)
    # is not transparent: nothing follows it, a label in front of it names it
    keep = set()
    for sname in model.section_order:
        trailing = []
        for u in model.sections[sname]:
            for t in u.toks:
                if t.is_bytes():
                    if t.origin == "pad":
                        trailing.append(id(t))
                    else:
                        trailing = []
        keep.update(trailing)
    saved = {}
    for s, u in model.units():
        saved[id(u)] = u.toks
        u.toks = [t for t in u.toks if id(t) in keep or (not (t.kind == "insn" and t.ikind == "pad") and not (t.kind == "data" and t.origin == "pad"))]
    try:
        return expect.expected_edges(model, entry_toks)
    finally:
        for s, u in model.units():
            u.toks = saved[id(u)]


def _edge_diff(e, r, section_end):
    """Compare expected and real edge sets of one instruction."""
    e = set(e)
    r = set(r)
    miss = set()
    used = set()
    for x in sorted(e, key=str):
        typ, cond, direct, tk = x
        optional = typ.endswith("?")
        typ = typ.rstrip("?")
        found = None
        for y in sorted(r - used, key=str):
            if y[0] != typ:
                continue
            if typ != "Fallthrough" and (y[1] != cond or y[2] != direct):
                continue
            ytk = y[3]
            if tk[0] == "addr" and ytk[0] == "addr" and ytk[1] == tk[1]:
                found = y
            elif tk[0] == "addr-or-proxy" and ((ytk[0] == "addr" and ytk[1] == tk[1]) or ytk[0] == "proxy"):
                found = y
            elif tk[0] == "addr-end" and ytk[0] == "addr" and ytk[1] == section_end.get(tk[1]):
                found = y
            elif tk[0] == "proxy" and ytk[0] == "proxy":
                if tk[1] is None or tk[1] in ytk[1]:
                    found = y
            if found:
                break
        if found:
            used.add(found)
        elif not optional:
            miss.add(x)
    spur = r - used
    # several expected 'anon' return edges may be satisfied by one proxy
    return miss, spur


# ------------------------------------------------------------------ C04

OFFSET_TABLES = ("comments", "padding", "symbolicExpressionSizes")


def check_c04(mt, sess):
    _check_patch_addends(sess)
    _check_exprs(mt, sess)
    _check_offset_aux(mt, sess)


def _check_patch_addends(sess):
    """Independent of what the assembler reported: an operand the patch text
    writes as a plain symbol (the vocabulary never writes 'sym+N') is a
    symbolic expression with addend 0, wherever the operand sits inside its
    instruction."""
    for c in sess.captures:
        cap = c["cap"]
        if cap is None:
            continue
        pdesc = sess.desc["ops"][c["op"]].get("patch") or {}
        plines = pdesc.get("lines") or []
        sec = cap["sections"][cap["text"]]
        # ... and an operand written as ':lo12:sym+N' is an expression on sym
        # with addend N that carries the LO12 attribute
        for l in plines:
            if l.get("v") == "addlo" and not l.get("ttemp"):
                want_a = l.get("a") or 0
                if not any(ed[0] == "const" and ed[1] == l["t"] and ed[3] == want_a and "LO12" in (ed[4] or ()) for _, (size, ed) in sec["sx"].items()):
                    got = sorted((off, ed[3], list(ed[4] or ())) for off, (size, ed) in sec["sx"].items() if ed[0] == "const" and ed[1] == l["t"])
                    raise core.Violation(
                        "C04",
                        "expr-attrs/addend",
                        {"what": "operand written as :lo12:sym+N", "symbol": l["t"], "addend": want_a, "expressions_on_symbol": got, "op": c["op"]},
                        {"where": "patch", "kind": "lo12-operand"},
                    )
        named = {l["t"] for l in plines if l.get("t") and not l.get("ttemp") and l.get("v") and not l.get("a")} - {l["t"] for l in plines if l.get("a")}
        if not named:
            continue
        for off, (size, ed) in sorted(sec["sx"].items()):
            if ed[0] == "const" and ed[1] in named and ed[3] != 0:
                raise core.Violation(
                    "C04",
                    "expr-attrs/addend",
                    {"what": "operand written as a plain symbol got an addend", "symbol": ed[1], "addend": ed[3], "patch_offset": off, "op": c["op"]},
                    {"where": "patch", "kind": "addend-from-assembler"},
                )


def _check_exprs(mt, sess, allow_dup_names=False):
    from .driver import expr_desc

    world, model = mt.world, mt.model
    m = world.module
    byname = {}
    for s in m.symbols:
        byname.setdefault(s.name, []).append(s)
    # --- symbolic expressions, by (unit, position)
    for sname, u in model.units():
        o = mt.unit_obs.get(u.id)
        if o is None:
            continue
        pm = mt.posmap[u.id]
        want = {}
        for t, p in zip(u.toks, pm):
            for rel, size, ed in t.sx:
                want[p + rel] = (size, ed, t.id, "orig" if t.origin == "orig" else "patch")
        real = {off: e for off, e in o.bi.symbolic_expressions.items()}
        for off in sorted(set(want) | set(real)):
            if off not in real:
                size, ed, tid, org = want[off]
                raise core.Violation("C04", "expr-lost", {"unit": u.id, "offset": off, "token": tid, "expr": list(map(str, ed))}, {"origin": org})
            if off not in want:
                raise core.Violation("C04", "expr-spurious", {"unit": u.id, "offset": off, "expr": list(map(str, expr_desc(real[off])))}, {"where": _where(u, pm, off)})
            size, ed, tid, org = want[off]
            rd = expr_desc(real[off])
            if rd[:3] != tuple(ed)[:3]:
                raise core.Violation("C04", "expr-moved", {"unit": u.id, "offset": off, "token": tid, "expected": list(map(str, ed)), "real": list(map(str, rd))}, {"origin": org})
            if tuple(rd[3:]) != tuple(ed[3:]):
                raise core.Violation("C04", "expr-attrs/addend", {"unit": u.id, "offset": off, "token": tid, "expected": list(map(str, ed)), "real": list(map(str, rd))}, {"origin": org})
            e = real[off]
            for sym in e.symbols:
                cands = byname.get(sym.name, [])
                if not any(c is sym for c in cands):
                    raise core.Violation("C04", "expr-symbol-identity", {"unit": u.id, "offset": off, "symbol": sym.name, "what": "expression refers to a symbol object that is not in the module"}, {"origin": org})
                if len(cands) > 1:
                    raise core.Violation("C04", "duplicate-symbol", {"symbol": sym.name, "count": len(cands)}, {"origin": org})
            if off + (size or 0) > o.size:
                raise core.Violation("C04", "annot-out-of-range", {"unit": u.id, "offset": off, "table": "symbolic_expressions"}, {"table": "symexpr"})
    # duplicate names created by patches
    for name, lst in byname.items():
        if len(lst) > 1:
            raise core.Violation("C04", "duplicate-symbol", {"symbol": name, "count": len(lst)}, {"origin": "any"})


def _check_offset_aux(mt, sess):
    world, model = mt.world, mt.model
    m = world.module
    # --- offset-keyed aux data
    iv_unit = {}
    for sname, lst in mt.obs.sections.items():
        for o in lst:
            iv_unit[o.bi.uuid] = o
    for table in OFFSET_TABLES:
        ad = m.aux_data.get(table)
        real = {}
        if ad is not None:
            for key, val in ad.data.items():
                el = key.element_id
                if isinstance(el, gtirb.ByteBlock):
                    bi = el.byte_interval
                    if bi is None or el.module is not m:
                        raise core.Violation("C04", "annot-out-of-range", {"table": table, "what": "keyed by a block that left the module"}, {"table": table, "kind": "dead-block"})
                    if not (0 <= key.displacement <= el.size):
                        raise core.Violation("C04", "annot-out-of-range", {"table": table, "displacement": key.displacement, "block_size": el.size}, {"table": table, "kind": "range"})
                    pos = el.offset + key.displacement
                elif isinstance(el, gtirb.ByteInterval):
                    bi = el
                    if bi.module is not m:
                        raise core.Violation("C04", "annot-out-of-range", {"table": table, "what": "keyed by an interval that left the module"}, {"table": table, "kind": "dead-interval"})
                    if not (0 <= key.displacement <= bi.size):
                        raise core.Violation("C04", "annot-out-of-range", {"table": table, "displacement": key.displacement, "interval_size": bi.size}, {"table": table, "kind": "range"})
                    pos = key.displacement
                else:
                    raise core.Violation("C04", "annot-out-of-range", {"table": table, "what": f"keyed by {type(el).__name__}"}, {"table": table, "kind": "element"})
                o = iv_unit.get(bi.uuid)
                if o is None:
                    raise core.Violation("C04", "annot-out-of-range", {"table": table, "what": "interval not in a section"}, {"table": table, "kind": "dead-interval"})
                real.setdefault((o.unit, pos), []).append(val)
        want = {}
        for sname, u in model.units():
            if u.id not in mt.posmap:
                continue
            pm = mt.posmap[u.id]
            for t, p in zip(u.toks, pm):
                for (tk, rel), val in t.ann.items():
                    if tk.split("/")[0] == table:
                        want.setdefault((u.id, p + rel), []).append(val)
                if table == "symbolicExpressionSizes":
                    for rel, size, ed in t.sx:
                        if size is not None:
                            want.setdefault((u.id, p + rel), []).append(size)
        for k in sorted(set(want) | set(real), key=str):
            w = sorted(map(str, want.get(k, [])))
            r = sorted(map(str, real.get(k, [])))
            if w != r:
                cls = "annot-moved"
                raise core.Violation(
                    "C04", cls, {"table": table, "unit": k[0], "position": k[1], "expected": w, "real": r}, {"table": table, "kind": "lost" if w and not r else ("spurious" if r and not w else "value")}
                )
    # cfi directives: keys must be live and in range (their meaning is C08's)
    ad = m.aux_data.get("cfiDirectives")
    if ad is not None:
        for key in ad.data:
            el = key.element_id
            if not isinstance(el, (gtirb.ByteBlock, gtirb.ByteInterval)) or el.module is not m:
                raise core.Violation("C04", "annot-out-of-range", {"table": "cfiDirectives", "what": "keyed by an element outside the module"}, {"table": "cfiDirectives", "kind": "dead"})
            if not (0 <= key.displacement <= el.size):
                raise core.Violation("C04", "annot-out-of-range", {"table": "cfiDirectives", "displacement": key.displacement, "size": el.size}, {"table": "cfiDirectives", "kind": "range"})


def _where(u, pm, off):
    for t, p in zip(u.toks, pm):
        if t.is_bytes() and p <= off < p + len(t.b):
            return "orig" if t.origin == "orig" else ("pad" if t.origin == "pad" else "patch")
    return "none"


# ------------------------------------------------------------------ C06


def _c06_zero_sized_promotion(world, sess, fb, fe):
    """'Deleting an entry block promotes the next block only if it is in the
    same function' where the next block is a zero-sized block kept by an
    earlier rewrite (zero-sized blocks are not tokens of the listing model;
    the next block is the successor in the pre-session address order, in
    which a zero-sized block precedes the block that starts at its address)."""
    pre_order = getattr(sess, "pre_order", None)
    if not pre_order or sess.error is not None:
        return
    if any(op["k"] in ("delfn", "insfn") or (op["k"] == "delblock" and op.get("proxy")) for op in sess.desc["ops"]):
        return
    live = {b.uuid: b for b in world.module.byte_blocks}
    entries_now = {b.uuid: fu for fu, bs in fe.data.items() for b in bs}
    for sect, po in pre_order.items():
        for j, (bu, is_code, size, _) in enumerate(po):
            if bu in live or not is_code or size == 0 or bu not in sess.pre_fentries:
                continue  # not a deleted entry block
            if j + 1 >= len(po):
                continue
            nu, n_code, n_size, _ = po[j + 1]
            if not n_code or n_size != 0 or nu not in live:
                continue  # (non-empty successors are the listing model's business)
            fu = sess.pre_fentries[bu]
            if sess.pre_fblocks.get(nu) != fu or fu not in fb.data:
                continue
            sess.fired["probe.zero_sized_successor_of_deleted_entry"] += 1
            if entries_now.get(nu) != fu:
                raise core.Violation(
                    "C06",
                    "wrong-promotion",
                    {"what": "entry block deleted, the next block (zero-sized, same function) was not promoted to an entry", "function": world.func_ids.get(fu, str(fu)[:8])},
                    {"kind": "zero-sized-not-promoted"},
                )


def check_c06(mt, sess):
    from .driver import learn_functions

    world, model = mt.world, mt.model
    m = world.module
    learn_functions(world, model)
    addr = mt.tok_addr()
    fb = m.aux_data.get("functionBlocks")
    fe = m.aux_data.get("functionEntries")
    fn = m.aux_data.get("functionNames")
    if fb is None or fe is None:
        return
    blocks_of = {}
    for fu, bs in fb.data.items():
        for b in bs:
            blocks_of.setdefault(b.uuid, []).append(fu)
            if not isinstance(b, gtirb.CodeBlock):
                raise core.Violation("C06", "attribution", {"what": "a data block is listed in functionBlocks"}, {"kind": "data-in-function"})
            if b.module is not m or b.byte_interval is None:
                raise core.Violation("C06", "ghost-function", {"what": "functionBlocks lists a block that left the module"}, {"kind": "dead-block"})
    for bu, fus in blocks_of.items():
        if len(fus) > 1:
            raise core.Violation("C06", "block-in-two-functions", {"functions": sorted(world.func_ids.get(f, str(f)) for f in fus)}, {"kind": "two"})
    for fu, bs in fe.data.items():
        for b in bs:
            if fu not in fb.data or b not in fb.data[fu]:
                raise core.Violation("C06", "entry-not-in-blocks", {"function": world.func_ids.get(fu, str(fu))}, {"kind": "entry"})
    _c06_zero_sized_promotion(world, sess, fb, fe)
    # attribution per instruction
    real_func_at = {}
    for b in m.code_blocks:
        if b.size and b.address is not None:
            fus = blocks_of.get(b.uuid, [])
            real_func_at[(b.address, b.address + b.size)] = world.func_ids.get(fus[0], "?" + str(fus[0])[:8]) if fus else None
    ranges = sorted(real_func_at)
    import bisect

    starts = [r[0] for r in ranges]
    live_funcs = set()
    for s, u in model.units():
        for t in u.toks:
            if t.kind != "insn" or t.id not in addr:
                continue
            a = addr[t.id]
            i = bisect.bisect_right(starts, a) - 1
            if i < 0 or not (ranges[i][0] <= a < ranges[i][1]):
                raise core.Violation("C06", "attribution", {"what": "instruction is not inside any code block", "token": t.id, "address": a}, {"kind": "no-block"})
            rf = real_func_at[ranges[i]]
            want = t.func if t.origin != "pad" else None
            if want is not None:
                live_funcs.add(want)
            if rf != want:
                raise core.Violation(
                    "C06",
                    "attribution",
                    {"token": t.id, "address": a, "expected_function": want, "real_function": rf},
                    {"origin": "orig" if t.origin == "orig" else ("pad" if t.origin == "pad" else "patch"), "expected_none": want is None, "real_none": rf is None},
                )
    # entries: the block at every entry marker, and nothing else
    want_entries = set()
    optional_entries = set()
    for sname in model.section_order:
        pend = None
        pend_opt = False
        for u in model.sections[sname]:
            for t in u.toks:
                if t.kind == "entry":
                    pend = t.func
                    pend_opt = t.slid
                elif t.is_bytes() and t.origin == "pad":
                    continue
                elif t.is_bytes():
                    if pend is not None and t.kind == "insn" and t.func == pend and t.id in addr:
                        (optional_entries if pend_opt else want_entries).add((pend, addr[t.id]))
                    pend = None
    real_entries = set()
    for fu, bs in fe.data.items():
        for b in bs:
            if b.size and b.address is not None:
                real_entries.add((world.func_ids.get(fu, "?" + str(fu)[:8]), b.address))
    # a zero-sized entry block kept by an earlier rewrite (its code is gone
    # from the listing, the block is a placeholder) hands its entry status on
    # when it is finally removed: neither demanded nor objected to
    zero_pre = {u for po in (getattr(sess, "pre_order", None) or {}).values() for (u, is_code, size, _) in po if is_code and size == 0}
    placeholder_funcs = {world.func_ids.get(fu) for u, fu in (getattr(sess, "pre_fentries", None) or {}).items() if u in zero_pre}
    optional_entries |= {e for e in real_entries if e[0] in placeholder_funcs}
    if not (want_entries <= real_entries <= (want_entries | optional_entries)):
        miss = sorted(want_entries - real_entries, key=str)
        spur = sorted(real_entries - want_entries - optional_entries, key=str)
        raise core.Violation("C06", "wrong-promotion" if spur else "entry-not-in-blocks", {"missing_entries": miss, "spurious_entries": spur}, {"kind": "missing" if miss and not spur else ("spurious" if spur and not miss else "both")})
    # functions that lost all their blocks disappear from all three tables
    for fu in set(fb.data) | set(fe.data) | set(fn.data if fn is not None else ()):
        fid = world.func_ids.get(fu)
        has_sized = any(b.size for b in fb.data.get(fu, ()))
        if fid is not None and fid not in live_funcs and has_sized:
            raise core.Violation("C06", "ghost-function", {"function": fid}, {"kind": "has-blocks"})
        if fid is not None and fid not in live_funcs and not any(True for _ in fb.data.get(fu, ())):
            raise core.Violation("C06", "ghost-function", {"function": fid, "what": "function without blocks is still listed"}, {"kind": "listed"})
    by_fid = {world.func_ids.get(fu): fu for fu in fb.data}
    for fid in sorted(live_funcs):
        fu = by_fid.get(fid)
        if fu is None:
            raise core.Violation("C06", "inserted-function-missing" if fid.startswith("I:") else "attribution", {"function": fid, "what": "not in functionBlocks"}, {"kind": "missing-table"})
        if fn is not None:
            sym = fn.data.get(fu)
            if sym is None or sym.name != model.funcs[fid]["name"]:
                raise core.Violation("C06", "inserted-function-missing" if fid.startswith("I:") else "attribution", {"function": fid, "what": "functionNames entry missing or wrong", "name": getattr(sym, "name", None)}, {"kind": "name"})
        if fid.startswith("I:") and not any(f == fid for f, _ in real_entries):
            raise core.Violation("C06", "inserted-function-missing", {"function": fid, "what": "no entry"}, {"kind": "entry"})


# ------------------------------------------------------------------ C07


def c07_expected(sess):
    """Expected (registration, block) pairs from the model's own reading of
    the scope semantics (independent of scopes.py).  Computed at the start
    of the session, when the spans are those of the real blocks."""
    import re

    from .vocab import NO_FALLTHROUGH

    model, world = sess.model, sess.world
    m = world.module
    ops = sess.desc["ops"]
    all_spans = [sp for sname in model.section_order for sp in model.span_list.get(sname, [])]
    toks = {t.id: t for _, u in model.units() for t in u.toks}
    ep_key = str(m.entry_point.uuid) if m.entry_point is not None else None
    ep_span = model.spans.get(ep_key) if ep_key else None
    labels = expect.label_index(model)

    def fname(fid):
        f = model.funcs.get(fid, {})
        if not f.get("nameless"):
            return f.get("name")
        # a function without a functionNames entry is called after the
        # symbols on its entry blocks (labels may have slid there since)
        names = sorted({t.name for _, u in model.units() for t in u.toks if t.kind == "label" and t.att is not None and t.att.func == fid and t.att.is_entry})
        if not names:
            return "<unknown>"
        if len(names) == 1:
            return names[0]
        raise core.Rejected("the display name of a stripped function with several symbols on its entry blocks depends on set order")

    def pattern_match(fid, names):
        for n in names:
            if n == "MAIN":
                ok = fname(fid) == "main"
            elif n == "ENTRYPOINT":
                ok = ep_span is not None and ep_span.func == fid and ep_span.is_entry
            elif isinstance(n, dict):
                ok = fname(fid) is not None and re.fullmatch(n["re"], fname(fid)) is not None
            else:
                ok = fname(fid) == n
            if ok:
                return True
        return False

    def last_insn(sp):
        return toks[sp.tok_ids[-1]] if sp.tok_ids else None

    def is_exit(sp):
        t = last_insn(sp)
        if t is None or t.kind != "insn":
            return False
        k = t.ikind
        if k in ("ret", "ijmp"):
            return True
        out = False
        if k in ("jmp", "jcc"):
            tgt = expect.resolve(model, labels, t.target)
            if tgt[0] != "tok":
                out = True
            else:
                tf = toks[tgt[1]].func if tgt[1] in toks else None
                out = tf != sp.func
        if k not in NO_FALLTHROUGH:
            # falls through to the next instruction of the section
            loc = model.find(t.id)
            nb = expect.next_byte_token(model, loc[0], loc[1], loc[2] + 1)
            while nb is not None and nb[1].origin == "pad":
                # alignment padding is transparent
                u2 = nb[0]
                nb = expect.next_byte_token(model, loc[0], u2, u2.toks.index(nb[1]) + 1)
            if nb is not None and nb[1].kind == "insn" and nb[1].func != sp.func:
                out = True
        return out

    def exit_offset(sp):
        t = last_insn(sp)
        if t is not None and t.kind == "insn" and t.ikind not in ("plain", "pad"):
            return sp.size - len(t.b)
        return sp.size

    expected = {}
    have_functions = "functionEntries" in m.aux_data and "functionBlocks" in m.aux_data and bool(m.aux_data["functionEntries"].data)
    for oi, op in enumerate(ops):
        if op["k"] != "reg":
            continue
        sc = op["scope"]
        if sc["t"] == "allfuncs" and not have_functions:
            expected[oi] = "refused"
            continue
        lst = []
        for sp in all_spans:
            if sp.kind != "code" or not sp.size:
                continue
            func = sp.func if have_functions else None
            if sc["t"] == "allblocks":
                ok = func is None or sc.get("exclude") is None or not pattern_match(func, sc["exclude"])
                pos = sc["pos"]
            elif sc["t"] == "single":
                ok = sc["tok"] in sp.tok_ids
                pos = sc["pos"]
            else:
                ok = func is not None and (sc.get("functions") is None or pattern_match(func, sc["functions"]))
                if ok:
                    ok = sp.is_entry if sc["fpos"] == "ENTRY" else is_exit(sp)
                pos = sc["bpos"]
            if ok:
                lst.append((sp.key, pos, exit_offset(sp), sorted(sp.offsets), func))
        expected[oi] = lst
    return expected


def check_c07(mt, sess):
    world = mt.world
    exp = getattr(sess, "c07_expected", None) or {}
    ops = sess.desc["ops"]
    by_op = {}
    for c in sess.contexts:
        by_op.setdefault(c["op"], []).append(c)
    for oi, want in sorted(exp.items()):
        got = by_op.get(oi, [])
        if want == "refused":
            if sess.refused.get(oi) != "UnresolvableScopeError" or got:
                raise core.Violation("C07", "context-mismatch", {"op": oi, "what": "a function scope without function information was not refused"}, {"kind": "not-refused"})
            continue
        if oi in sess.refused:
            raise core.Violation("C07", "not-invoked", {"op": oi, "what": "scope was refused: " + sess.refused[oi]}, {"kind": "refused", "scope": ops[oi]["scope"]["t"]})
        want_keys = {w[0]: w for w in want}
        seen = {}
        for c in got:
            seen[c["block"]] = seen.get(c["block"], 0) + 1
        sig = {
            "scope": ops[oi]["scope"]["t"],
            "pos": ops[oi]["scope"].get("pos") or ops[oi]["scope"].get("bpos"),
            "fpos": ops[oi]["scope"].get("fpos"),
            "layout_reordered": bool(getattr(mt.model, "reordered_ever", False)),
        }
        for key in sorted(want_keys):
            if key not in seen:
                raise core.Violation("C07", "not-invoked", {"op": oi, "scope": ops[oi]["scope"], "block": key}, sig)
        for key, n in sorted(seen.items()):
            if key not in want_keys:
                raise core.Violation("C07", "invoked-elsewhere", {"op": oi, "scope": ops[oi]["scope"], "block": key}, sig)
            if n > 1:
                raise core.Violation("C07", "invoked-twice", {"op": oi, "scope": ops[oi]["scope"], "block": key, "times": n}, sig)
        for c in got:
            key, pos, exit_off, bounds, func = want_keys[c["block"]]
            off = c["offset"]
            ok = (pos == "ENTRY" and off == 0) or (pos == "EXIT" and off == exit_off) or (pos == "ANYWHERE" and off in set(bounds) | {exit_off} and off <= exit_off)
            if not ok:
                raise core.Violation("C07", "wrong-offset-class", {"op": oi, "scope": ops[oi]["scope"], "offset": off, "exit_offset": exit_off, "boundaries": bounds}, sig)
            want_fu = world.func_uuid.get(func) if func is not None else None
            if (c["func"] or None) != (str(want_fu) if want_fu is not None else None):
                raise core.Violation("C07", "context-mismatch", {"op": oi, "what": "InsertionContext.function", "got": c["func"], "expected": str(want_fu)}, sig)
    # specific-location insertions: context names the requested block/offset
    for oi, (key, off, length) in sess.resolved.items():
        for c in by_op.get(oi, []):
            if c["block"] != key or c["offset"] != off:
                raise core.Violation("C07", "context-mismatch", {"op": oi, "what": "InsertionContext of insert_at/replace_at", "got": [c["block"], c["offset"]], "expected": [key, off]}, {"kind": "specific"})
        if len(by_op.get(oi, [])) > 1:
            raise core.Violation("C07", "invoked-twice", {"op": oi}, {"kind": "specific"})


# ------------------------------------------------------------------ C08


def _cfi_eval(world):
    """Independent evaluation of the module's cfiDirectives table.
    -> (steps keyed by address in order, error or None)"""
    from .. import cfi_ref

    m = world.module
    table = m.aux_data.get("cfiDirectives")
    blocks = sorted((b for b in m.code_blocks if b.address is not None), key=lambda b: (b.address, b.size != 0, b.uuid.int))
    data = table.data if table is not None else {}
    # directives keyed by data blocks / intervals are not evaluated
    blk, hist = cfi_ref.history_from_table(data, blocks)
    groups = cfi_ref.group_history(blk, hist)
    abi = dict(cfi_ref.ABIS["x64-elf"])
    abi["eh"] = True
    steps = cfi_ref.interpret(groups, abi, {"rel_offset": "library"})
    out = []
    err = None
    for st in steps:
        b, off = st["loc"]
        a = blk[b]["addr"] + off
        if "error" in st or "unspecified" in st:
            err = {"address": a, "what": st.get("error") or st.get("unspecified")}
            break
        out.append((a, st["proc"], st["state"]))
    return out, err


def _state_at(steps, addrs):
    """state in effect at each address (after all directive locations <= it)"""
    import bisect

    keys = [s[0] for s in steps]
    res = {}
    for a in addrs:
        i = bisect.bisect_right(keys, a) - 1
        res[a] = (0, None) if i < 0 else (steps[i][1], steps[i][2])
    return res


def c08_pre(mt):
    """Unwind state at every instruction before the session."""
    steps, err = _cfi_eval(mt.world)
    if err is not None:
        raise core.Rejected(f"input CFI does not evaluate cleanly: {err}")
    addr = mt.tok_addr()
    toks = [(t, addr[t.id]) for _, u in mt.model.units() for t in u.toks if t.kind == "insn" and t.id in addr]
    st = _state_at(steps, [a for _, a in toks])
    return {t.id: st[a] for t, a in toks}, _cfi_history(mt.world)


def _cfi_history(world):
    from .. import cfi_ref

    m = world.module
    table = m.aux_data.get("cfiDirectives")
    blocks = sorted((b for b in m.code_blocks if b.address is not None), key=lambda b: (b.address, b.size != 0, b.uuid.int))
    blk, hist = cfi_ref.history_from_table(table.data if table is not None else {}, blocks)
    return {"keys": [str(b.uuid) for b in blocks], "blk": blk, "hist": hist}


def _state_at_location(pre_hist, key, off):
    """(in procedure?, state) in effect for code inserted at (block, off):
    every directive at earlier listing positions, plus those keyed at
    exactly (block, off) up to (not including) the first .cfi_endproc."""
    from .. import cfi_ref

    if key not in pre_hist["keys"]:
        return None
    bi = pre_hist["keys"].index(key)
    groups = cfi_ref.group_history(pre_hist["blk"], pre_hist["hist"])
    abi = dict(cfi_ref.ABIS["x64-elf"])
    mach = cfi_ref.Machine(abi, {"rel_offset": "library"})
    target = (pre_hist["blk"][bi]["addr"], bi, off)
    for loc, events in groups:
        here = (pre_hist["blk"][loc[0]]["addr"], loc[0], loc[1])
        if here > target:
            break
        for ev in events:
            if here == target and ev[2] == ".cfi_endproc":
                break
            if mach.step(ev) is not None:
                return None
        mach.end_group()
    return (mach.s.proc if mach.s else 0), mach.snapshot()


def check_c08(mt, sess):
    try:
        _check_c08(mt, sess)
    except core.Violation as v:
        v.sig["layout_reordered"] = bool(mt.obs.reordered)
        raise


def _check_c08(mt, sess):
    pre, pre_hist = sess.c08_pre
    steps, err = _cfi_eval(mt.world)
    if err is not None:
        raise core.Violation("C08", "eval-error", err, {"what": str(err["what"].get("kind") if isinstance(err["what"], dict) else err["what"])[:60]})
    addr = mt.tok_addr()
    model = mt.model
    toks = [(t, addr[t.id]) for _, u in model.units() for t in u.toks if t.kind == "insn" and t.id in addr]
    st = _state_at(steps, [a for _, a in toks])
    deleted_any = any(op["k"] in ("del", "delblock", "rep", "delfn") for op in sess.desc["ops"])
    # (2) in-procedure iff before; (3) unchanged state when nothing is deleted
    for t, a in toks:
        if t.id not in pre:
            continue
        p0, s0 = pre[t.id]
        p1, s1 = st[a]
        if bool(p0) != bool(p1):
            raise core.Violation("C08", "in-proc-changed", {"token": t.id, "address": a, "before": bool(p0), "after": bool(p1)}, {"now_in": bool(p1), "deleted_any": deleted_any})
        if not deleted_any and s0 != s1:
            raise core.Violation("C08", "state-changed", {"token": t.id, "address": a, "before": _brief(s0), "after": _brief(s1)}, {"field": _diff_field(s0, s1)})
    # (5) ordered list of procedures that still hold an original instruction
    def proc_list(get):
        order = []
        members = {}
        for sname in model.section_order:
            for u in model.sections[sname]:
                for t in u.toks:
                    if t.kind == "insn" and t.id in pre and t.id in addr:
                        p = get(t)
                        if p:
                            if p not in members:
                                members[p] = []
                                order.append(p)
                            members[p].append(t.id)
        return [tuple(members[p]) for p in order]

    before = proc_list(lambda t: pre[t.id][0])
    after = proc_list(lambda t: st[addr[t.id]][0])
    if before != after:
        raise core.Violation("C08", "procedure-list", {"before": [list(x)[:4] for x in before], "after": [list(x)[:4] for x in after]}, {"nbefore": len(before), "nafter": len(after)})
    # (4) patch instructions of pure insertions: covered by the procedure
    # that is open at the insertion point, with the state in effect there
    # plus the patch's own directives
    import re

    where = {}
    for oi, (key, off, length) in sess.resolved.items():
        if sess.desc["ops"][oi]["k"] == "ins":
            where[oi] = (key, off)
    regs = {}
    for c in sess.captures:
        if sess.desc["ops"][c["op"]]["k"] == "reg":
            regs[(c["op"], c["inv"])] = (c["block"], c["offset"])
    cache = {}
    for t, a in toks:
        if deleted_any:
            # structural directives of deleted blocks move to their
            # neighbours; the pre-session positions no longer apply
            break
        if t.id in pre or not isinstance(t.origin, str):
            continue
        mo = re.match(r"s(\d+)o(\d+)i(\d+)", t.origin)
        if not mo or int(mo.group(1)) != sess.index:
            continue
        oi, inv = int(mo.group(2)), int(mo.group(3))
        loc = where.get(oi) or regs.get((oi, inv))
        if loc is None:
            continue
        if loc not in cache:
            cache[loc] = _state_at_location(pre_hist, loc[0], loc[1])
        base = cache[loc]
        if base is None:
            continue
        bproc, bstate = base
        p1, s1 = st[a]
        own = _patch_cfi(sess, t)
        # structural cause of F36: another insertion at the end of the block
        # right in front of this one (the .cfi_endproc travels)
        after_end_insert = False
        if True:
            if loc[1] == 0 and loc[0] in pre_hist["keys"]:
                bi = pre_hist["keys"].index(loc[0])
                for oi2, (k2, o2, l2) in sess.resolved.items():
                    if k2 in pre_hist["keys"] and sess.desc["ops"][oi2]["k"] == "ins":
                        b2 = pre_hist["keys"].index(k2)
                        # (the block directly in front in the listing: an address
                        # gap between two byte intervals is not part of it)
                        if b2 == bi - 1 and o2 == pre_hist["blk"][b2]["size"]:
                            after_end_insert = True
        if bool(p1) != bool(bproc):
            raise core.Violation(
                "C08",
                "patch-state",
                {"token": t.id, "what": "patch instruction covered by a procedure" if p1 else "patch instruction inside a procedure is not covered by it", "insertion": list(loc)},
                {"kind": "covered-outside" if p1 else "not-covered", "after_end_insert": after_end_insert},
            )
        if not bproc:
            continue
        want = _adjust(bstate, own or 0)
        if want is not None and _patch_saved(sess, t):
            # between the patch's .cfi_remember_state and .cfi_restore_state
            # the state at the insertion point sits on the save stack
            import copy as _copy

            want = _copy.deepcopy(want)
            want["save_stack"] = list(want["save_stack"]) + [{"cfa": _copy.deepcopy(bstate["cfa"]), "registers": _copy.deepcopy(bstate["registers"])}]
        if deleted_any:
            # register rules that describe deleted instructions may be gone
            continue
        if s1 != want:
            raise core.Violation(
                "C08",
                "patch-state",
                {"token": t.id, "state": _brief(s1), "expected": _brief(want), "own_adjust": own, "insertion": list(loc)},
                {"kind": "state", "own_cfi": own is not None, "field": _diff_field(s1, want), "after_end_insert": after_end_insert},
            )


def _patch_cfi(sess, tok):
    """Net .cfi_adjust_cfa_offset in effect at a patch instruction (from the
    patch descriptor), or None if the patch has no CFI of its own."""
    org = tok.origin
    if not isinstance(org, str) or not org.startswith("s"):
        return None
    import re

    mo = re.match(r"s(\d+)o(\d+)i(\d+)", org)
    if not mo or int(mo.group(1)) != sess.index:
        return None
    op = sess.desc["ops"][int(mo.group(2))]
    p = op.get("patch") or {}
    lines = p.get("lines") or []
    if not any("cfi_adjust" in (l.get("raw") or "") for l in lines):
        return None
    # instruction ordinal of this token inside the patch
    n = int(tok.id.rsplit(".", 1)[1])
    total = 0
    k = -1
    saved = 0
    for l in lines:
        if "raw" in l and "cfi_adjust_cfa_offset" in l["raw"]:
            if k < n:
                total += int(l["raw"].split()[-1])
        elif l.get("raw") == ".cfi_remember_state":
            if k < n:
                saved = total
        elif l.get("raw") == ".cfi_restore_state":
            if k < n:
                total = saved
        elif "label" not in l and not ("raw" in l and l["raw"].startswith(".cfi")):
            k += 1
    return total


def _patch_saved(sess, tok):
    """True if the patch instruction lies between the patch's own
    .cfi_remember_state and .cfi_restore_state."""
    import re

    mo = re.match(r"s(\d+)o(\d+)i(\d+)", tok.origin if isinstance(tok.origin, str) else "")
    if not mo or int(mo.group(1)) != sess.index:
        return False
    lines = (sess.desc["ops"][int(mo.group(2))].get("patch") or {}).get("lines") or []
    n = int(tok.id.rsplit(".", 1)[1])
    k = -1
    inside = False
    for l in lines:
        if l.get("raw") == ".cfi_remember_state":
            if k < n:
                inside = True
        elif l.get("raw") == ".cfi_restore_state":
            if k < n:
                inside = False
        elif "label" not in l and not ("raw" in l and l["raw"].startswith(".cfi")):
            k += 1
    return inside


def _adjust(state, delta):
    import copy

    if state is None or not delta:
        return state
    s = copy.deepcopy(state)
    if s["cfa"] and s["cfa"][0] == "reg":
        s["cfa"] = ["reg", s["cfa"][1], s["cfa"][2] + delta]
    return s


def _brief(s):
    if s is None:
        return None
    return {"cfa": s["cfa"], "registers": s["registers"], "save_stack": len(s["save_stack"]), "personality": s["personality"], "lsda": s["lsda"], "return_column": s["return_column"]}


def _diff_field(a, b):
    if a is None or b is None:
        return "proc"
    for k in ("cfa", "registers", "save_stack", "personality", "lsda", "return_column", "initial_cfa", "initial_registers"):
        if a.get(k) != b.get(k):
            return k
    return "?"


# ------------------------------------------------------------------ C18


def convert_attrs(desc, tok, attrs, a_internal, b_internal):
    """Attribute conversion when a use moves from symbol A to symbol B,
    written down from the ABI documentation (abi.py docstrings), per access
    type: control flow / data reference in code / data."""
    if tok.kind == "insn" and tok.ikind in ("jmp", "jcc", "call"):
        access = "cf"
    elif tok.kind == "insn":
        access = "code"
    else:
        access = "data"
    attrs = tuple(sorted(attrs))
    rules = []
    if desc["fmt"] == "elf" and desc["isa"] in ("x64", "ia32"):
        if desc.get("pie"):
            rules = [("code", (), ("GOT", "PCREL")), ("cf", (), ("PLT",))]
        else:
            rules = [("cf", (), ("PLT",)), ("code", (), ("PLT",))]
    elif desc["fmt"] == "elf" and desc["isa"] == "arm64" and desc.get("pie"):
        rules = [("code", ("LO12",), ("GOT", "LO12")), ("code", (), ("GOT",))]
    for acc, internal_attrs, external_attrs in rules:
        if acc != access:
            continue
        cur = internal_attrs if a_internal else external_attrs
        if attrs == tuple(sorted(cur)):
            return tuple(sorted(internal_attrs if b_internal else external_attrs))
    return attrs


def check_c18(mt, sess):
    """The model already holds the retargeted expressions; compare
    expressions (C04 machinery), CFI / symbolForwarding mentions and the
    CFG (C03 machinery), translating their verdicts into C18's classes."""
    world, model = mt.world, mt.model
    m = world.module
    pairs = dict(sess.retargets)
    sig_base = {"retargets": len(pairs), "layout_reordered": bool(mt.obs.reordered)}
    try:
        check_c04(mt, sess)
    except core.Violation as v:
        w = v.witness or {}
        real = w.get("real")
        exp = w.get("expected")
        cls = "collateral-change"
        involved = [n for n in list(pairs) + list(pairs.values()) if (real and n in map(str, real)) or (exp and n in map(str, exp))]
        if v.vclass in ("expr-moved", "expr-lost", "expr-spurious") and involved:
            cls = "mention-left" if real and any(a in map(str, real) for a in pairs) else "collateral-change"
        elif v.vclass == "expr-attrs/addend" and involved:
            cls = "wrong-attrs"
        raise core.Violation("C18", cls, {"from": v.vclass, **(w if isinstance(w, dict) else {"w": w})}, {**sig_base, "via": v.vclass, **{k: v.sig[k] for k in v.sig if k in ("origin", "table", "kind")}})
    # CFI personality / LSDA and symbolForwarding
    pre = getattr(sess, "c18_pre", None) or {"cfi": [], "fwd": []}
    cfi = m.aux_data.get("cfiDirectives")
    now = []
    if cfi is not None:
        for key, dirs in cfi.data.items():
            for d in dirs:
                if isinstance(d[2], gtirb.Symbol):
                    now.append((d[0], d[2].name))
    # (symbols deleted in the same rewrite - after the retargets - leave the
    # tables: CFI operands are nulled, forwarding entries dropped; C19)
    gone = set(getattr(sess, "delsyms", None) or ()) if sess.error is None else set()
    want = sorted((d, pairs.get(n, n)) for d, n in pre["cfi"] if pairs.get(n, n) not in gone)
    if sorted(now) != want and not any(op["k"] in ("del", "delblock", "rep", "delfn") for op in sess.desc["ops"]):
        raise core.Violation("C18", "mention-left" if any(n in pairs for _, n in now) else "collateral-change", {"table": "cfiDirectives", "expected": want[:6], "real": sorted(now)[:6]}, {**sig_base, "via": "cfi"})
    fwd = m.aux_data.get("symbolForwarding")
    nowf = sorted((a.name, b.name) for a, b in fwd.data.items()) if fwd is not None else []
    wantf = sorted((a, pairs.get(b, b)) for a, b in pre["fwd"] if a not in gone and pairs.get(b, b) not in gone)
    if nowf != wantf:
        raise core.Violation("C18", "mention-left" if any(b in pairs for _, b in nowf) else "collateral-change", {"table": "symbolForwarding", "expected": wantf[:6], "real": nowf[:6]}, {**sig_base, "via": "symbolForwarding"})
    try:
        check_c03(mt, sess)
    except core.Violation as v:
        types = v.sig.get("types") or []
        if types == ["Return"]:
            cls = "return-edges"
        elif v.vclass == "missing-edge":
            cls = "edge-not-moved"
        else:
            cls = "edge-moved-wrongly"
        raise core.Violation("C18", cls, v.witness, {**sig_base, "via": v.vclass, "types": types, "insn_kind": v.sig.get("insn_kind"), "origin": v.sig.get("origin")})


def c18_pre(world):
    m = world.module
    cfi = m.aux_data.get("cfiDirectives")
    out = {"cfi": [], "fwd": []}
    if cfi is not None:
        for key, dirs in cfi.data.items():
            for d in dirs:
                if isinstance(d[2], gtirb.Symbol):
                    out["cfi"].append((d[0], d[2].name))
    fwd = m.aux_data.get("symbolForwarding")
    if fwd is not None:
        out["fwd"] = sorted((a.name, b.name) for a, b in fwd.data.items())
    return out


# ------------------------------------------------------------------ C19

C19_TABLES = ("elfSymbolInfo", "elfSymbolTabIdxInfo", "functionNames", "peImportedSymbols", "peExportedSymbols", "symbolForwarding")


def _by_name(x):
    """Aux data with symbols replaced by their names (json-able)."""
    import uuid as _u

    if isinstance(x, gtirb.Symbol):
        return ("sym", x.name)
    if isinstance(x, gtirb.Node):
        return ("node", type(x).__name__)
    if isinstance(x, _u.UUID):
        return ("uuid", "null" if x.int == 0 else "id")
    if hasattr(x, "items"):
        return sorted(((_by_name(k), _by_name(v)) for k, v in x.items()), key=repr)
    if isinstance(x, (set, frozenset)):
        return sorted((_by_name(v) for v in x), key=repr)
    if isinstance(x, (list, tuple)):
        return [_by_name(v) for v in x]
    return x


def c19_pre(world):
    m = world.module
    out = {"tables": {}, "cfi": [], "symbols": sorted(s.name for s in m.symbols)}
    for t in C19_TABLES:
        ad = m.aux_data.get(t)
        out["tables"][t] = _by_name(ad.data) if ad is not None else None
    v = m.aux_data.get("elfSymbolVersions")
    if v is not None:
        defs, reqs, entries = v.data
        out["versions"] = {
            "defs": {int(k): (list(a), f) for k, (a, f) in defs.items()},
            "reqs": {lib: dict(d) for lib, d in reqs.items()},
            "entries": {s.name: (vid, bool(h)) for s, (vid, h) in entries.items()},
        }
    cfi = m.aux_data.get("cfiDirectives")
    if cfi is not None:
        for key, dirs in cfi.data.items():
            el = key.element_id
            for i, d in enumerate(dirs):
                out["cfi"].append(((str(el.uuid), key.displacement, i), d[0], list(d[1]), d[2].name if isinstance(d[2], gtirb.Symbol) else None))
    return out


def _drop_names(x, names):
    """_by_name data without every entry that mentions one of the names."""
    def mentions(y):
        if isinstance(y, tuple) and len(y) == 2 and y[0] == "sym":
            return y[1] in names
        if isinstance(y, (list, tuple)):
            return any(mentions(z) for z in y)
        return False

    if isinstance(x, list):
        return [_drop_names(v, names) for v in x if not mentions(v)]
    return x


def check_c19(mt, sess):
    world, model = mt.world, mt.model
    m = world.module
    pre = sess.c19_pre
    deleted = set(sess.delsyms)
    sig0 = {"ndeleted": len(deleted)}
    if not deleted:
        return
    # the symbols are gone
    left = sorted(s.name for s in m.symbols if s.name in deleted)
    if left:
        raise core.Violation("C19", "symbol-left", {"symbols": left}, sig0)
    other = sorted(n for n in pre["symbols"] if n not in deleted)
    now = sorted(s.name for s in m.symbols)
    lost = [n for n in other if n not in now]
    if lost:
        raise core.Violation("C19", "collateral-change", {"what": "symbols that were not asked for are gone", "symbols": lost[:5]}, {**sig0, "table": "symbols"})
    # no aux table mentions a deleted symbol; everything else is untouched
    live = {s.uuid for s in m.symbols}
    for name, ad in sorted(m.aux_data.items()):
        nodes = []
        from .validate import _norm

        _norm(ad.data, nodes)
        for n in nodes:
            if isinstance(n, gtirb.Symbol) and n.uuid not in live:
                raise core.Violation("C19", "table-mention", {"table": name, "symbol": n.name}, {**sig0, "table": name})
    for t in C19_TABLES:
        ad = m.aux_data.get(t)
        cur = _by_name(ad.data) if ad is not None else None
        want = _drop_names(pre["tables"][t], deleted) if pre["tables"][t] is not None else None
        if t == "functionNames" and cur is not None and want is not None:
            # only the name entry goes; compare as sets of names
            cur = sorted(v for _, v in cur)
            want = sorted(v for _, v in want)
        if (cur or None) != (want or None):
            raise core.Violation("C19", "collateral-change", {"table": t, "expected": str(want)[:300], "real": str(cur)[:300]}, {**sig0, "table": t})
    # CFI: mentions carry the null UUID (DW_EH_PE_omit for personality/LSDA)
    cfi = m.aux_data.get("cfiDirectives")
    nowc = {}
    if cfi is not None:
        for key, dirs in cfi.data.items():
            for i, d in enumerate(dirs):
                nowc[(str(key.element_id.uuid), key.displacement, i)] = (d[0], list(d[1]), d[2].name if isinstance(d[2], gtirb.Symbol) else ("null" if getattr(d[2], "int", 1) == 0 else "uuid"))
    if True:
        for k, name, args, sym in pre["cfi"]:
            got = nowc.get(k)
            if sym in deleted:
                want = (name, [0xFF], "null") if name in (".cfi_personality", ".cfi_lsda") else (name, args, "null")
            else:
                want = (name, args, sym if sym is not None else "null")
            if got != want:
                raise core.Violation("C19", "cfi-not-nulled" if sym in deleted else "collateral-change", {"directive": name, "expected": want, "real": got}, {**sig0, "table": "cfiDirectives"})
    # symbol versions: definitions / requirements dropped iff unused
    if "versions" in pre:
        v = m.aux_data.get("elfSymbolVersions")
        defs, reqs, entries = v.data
        want_entries = {n: e for n, e in pre["versions"]["entries"].items() if n not in deleted}
        keep = {vid for vid, _ in want_entries.values()}
        want_defs = {k: d for k, d in pre["versions"]["defs"].items() if k in keep or d[1] == 1}
        want_reqs = {}
        for lib, d in pre["versions"]["reqs"].items():
            dd = {k: ver for k, ver in d.items() if k in keep}
            if dd or not d:
                want_reqs[lib] = dd
        got_entries = {s.name: (vid, bool(h)) for s, (vid, h) in entries.items()}
        got_defs = {int(k): (list(a), f) for k, (a, f) in defs.items()}
        got_reqs = {lib: dict(d) for lib, d in reqs.items()}
        if got_entries != want_entries or got_defs != want_defs or got_reqs != want_reqs:
            raise core.Violation(
                "C19",
                "version-gc",
                {"expected": {"defs": str(want_defs), "reqs": str(want_reqs), "entries": str(want_entries)}, "real": {"defs": str(got_defs), "reqs": str(got_reqs), "entries": str(got_entries)}},
                {**sig0, "part": "entries" if got_entries != want_entries else ("defs" if got_defs != want_defs else "reqs")},
            )
    # expressions: exactly those that used a (forced) symbol are gone
    try:
        _check_exprs(mt, sess)
    except core.Violation as v:
        cls = "expr-left" if v.vclass == "expr-spurious" else ("expr-collateral" if v.vclass in ("expr-lost", "expr-moved", "expr-attrs/addend") else "collateral-change")
        raise core.Violation("C19", cls, v.witness, {**sig0, "via": v.vclass})
    # still serializable
    import io

    buf = io.BytesIO()
    try:
        world.ir.save_protobuf_file(buf)
        buf.seek(0)
        gtirb.IR.load_protobuf_file(buf)
    except Exception as e:
        raise core.Violation("C19", "roundtrip", {"error": f"{type(e).__name__}: {e}"[:300]}, {**sig0, "exc": type(e).__name__})


def c19_uses(model, names):
    """Which of the names are still mentioned by an expression of the
    listing (before the deletion is applied to the model)."""
    names = set(names)
    used = set()
    for _, u in model.units():
        for t in u.toks:
            for rel, size, ed in t.sx:
                if ed[1] in names:
                    used.add(ed[1])
                if ed[0] == "diff" and ed[2] in names:
                    used.add(ed[2])
    return sorted(used)


# ------------------------------------------------------------------ C13


def check_c13(mt, sess):
    import re

    world = mt.world
    m = world.module
    # no two symbols share a name (the generated inputs have none)
    seen = {}
    for s in m.symbols:
        seen[s.name] = seen.get(s.name, 0) + 1
    dups = sorted(n for n, c in seen.items() if c > 1)
    if dups:
        raise core.Violation("C13", "duplicate-name", {"names": dups[:5]}, {"temp": bool(re.match(r"^\.L|^\$L", dups[0]))})
    # every copy's references to temporary labels stay inside the copy
    temp = re.compile(r"^(\.L|\$L|L\$|Ls\d).*_(\d+)$")
    for c in sess.captures:
        cap = c["cap"]
        if cap is None:
            continue
        own = set()
        for sec in cap["sections"].values():
            own.update(l[0] for l in sec["labels"])
        # names the patch text spells out itself (a label an earlier session
        # left in the module is an ordinary module symbol by now)
        pdesc = sess.desc["ops"][c["op"]].get("patch") or {}
        plines = list(pdesc.get("lines") or []) + list((pdesc.get("other") or {}).get("lines") or [])
        explicit = {l.get("t") for l in plines if l.get("t") and not l.get("ttemp")}
        for sec in cap["sections"].values():
            for off, (size, ed) in sec["sx"].items():
                for name in ([ed[1]] + ([ed[2]] if ed[0] == "diff" else [])):
                    mo = temp.match(name) if isinstance(name, str) else None
                    if mo and name not in own and name not in explicit and not any(name in l.get("raw", "") for l in plines):
                        # a temporary label of another invocation (or of an
                        # earlier session, which is legitimate only if the
                        # patch text named it explicitly - ours never does)
                        raise core.Violation("C13", "captured-label", {"op": c["op"], "invocation": c["inv"], "reference": name, "own_labels": sorted(own)}, {"kind": "foreign-temp-label"})
    # expressions naming an existing module symbol hold that very object
    try:
        _check_exprs(mt, sess)
    except core.Violation as v:
        if v.vclass in ("expr-symbol-identity", "duplicate-symbol"):
            raise core.Violation("C13", "wrong-identity", v.witness, {"via": v.vclass})
        raise core.Desync(f"expressions differ from the model ({v.vclass})")
