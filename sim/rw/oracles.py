"""Oracles of the rewrite world simulator, one per property."""

import gtirb

from .. import core
from . import expect, observe


class Matched:
    """Model units aligned with real intervals (shared by all oracles)."""

    def __init__(self, world, model, obs):
        self.world = world
        self.model = model
        self.obs = obs
        self.unit_obs = {}  # unit id -> IntervalObs
        self.posmap = {}  # unit id -> [real offset per token] + end
        self.pads = {}
        self.failure = None

    def tok_addr(self):
        """tok id -> real address (byte tokens and labels alike)"""
        out = {}
        for s, u in self.model.units():
            o = self.unit_obs.get(u.id)
            if o is None or o.addr is None:
                continue
            pm = self.posmap[u.id]
            for t, p in zip(u.toks, pm):
                out[t.id] = o.addr + p
        return out


def align_model(world, model, obs, armed):
    """Adopt new units and match bytes.  Raises C01 violations when C01 is
    armed, Desync otherwise."""
    try:
        observe.adopt_new_units(world, model, obs, armed)
        mt = Matched(world, model, obs)
        for sname in model.section_order:
            units = model.sections[sname]
            real = {o.unit: o for o in obs.sections.get(sname, [])}
            for u in units:
                o = real.get(u.id)
                if o is None:
                    if u.bytes() or any(t.kind == "label" for t in u.toks):
                        if not u.bytes():
                            continue
                        raise core.Violation("C01", "byte-mismatch", {"what": "unit has no byte interval any more", "unit": u.id}, {"where": "unit-lost"})
                    continue
                res, err = observe.match_unit(world, u, o, obs)
                if res is None:
                    err["unit"] = u.id
                    err["section"] = sname
                    tok = err.get("token")
                    origin = None
                    if tok is not None:
                        loc = model.find(tok)
                        origin = loc[1].toks[loc[2]].origin if loc else None
                    raise core.Violation("C01", "byte-mismatch", err, {"where": "orig" if origin == "orig" else "patch"})
                mt.unit_obs[u.id] = o
                mt.posmap[u.id], mt.pads[u.id] = res
                if mt.pads[u.id]:
                    _absorb_padding(model, u, o, mt)
            for o in obs.sections.get(sname, []):
                if o.unit not in {u.id for u in units} and o.data:
                    raise core.Violation("C01", "byte-mismatch", {"what": "interval unknown to the model", "section": sname}, {"where": "unit-extra"})
        for sname, lst in obs.sections.items():
            if sname not in model.sections and any(o.data for o in lst):
                raise core.Violation("C01", "byte-mismatch", {"what": "unexpected section with bytes", "section": sname}, {"where": "section-extra"})
        return mt
    except core.Violation as v:
        if armed == "C01":
            raise
        raise core.Desync(f"bytes differ from the model ({v.vclass}: {v.witness})")


def _absorb_padding(model, u, o, mt):
    """Validated padding becomes part of the listing (as 'pad' tokens) so
    that later sessions see the same bytes as the implementation."""
    from .model import Tok

    pm = mt.posmap[u.id]
    new_toks = []
    new_pm = []
    pads = dict(mt.pads[u.id])
    nop = mt.world.isa.nop
    done = set()
    for t, p in zip(u.toks, pm):
        if t.is_bytes():
            for pr, pl in pads.items():
                if pr + pl == p and pr not in done:
                    done.add(pr)
                    _emit_pad(model, new_toks, new_pm, o, pr, pl, nop)
        new_toks.append(t)
        new_pm.append(p)
    for pr, pl in pads.items():
        if pr not in done:
            _emit_pad(model, new_toks, new_pm, o, pr, pl, nop)
    new_pm.append(pm[-1])
    u.toks = new_toks
    mt.posmap[u.id] = new_pm


def _emit_pad(model, toks, pm, o, pr, pl, nop):
    from .model import Tok

    run = o.data[pr : pr + pl]
    if run == nop * (pl // len(nop)) and pl % len(nop) == 0 and any(k == "code" and off <= pr < off + size for (b, off, size, k) in o.blocks):
        for i in range(0, pl, len(nop)):
            toks.append(Tok("insn", model.fresh_id("pad"), b=nop, ikind="pad", origin="pad"))
            pm.append(pr + i)
    else:
        toks.append(Tok("data", model.fresh_id("pad"), b=run, origin="pad"))
        pm.append(pr)


# ------------------------------------------------------------------ C01


def check_c01(mt, sess):
    """Bytes were already matched by align_model; additionally every block
    must lie inside its interval's contents and padding must be covered."""
    # each patch invocation's bytes exactly once: follows from token-wise
    # matching (every model token matched exactly once, nothing left over)
    return


# ------------------------------------------------------------------ C02


def check_c02(mt, sess):
    world, model = mt.world, mt.model
    m = world.module
    addr = mt.tok_addr()
    byname = {}
    for s in m.symbols:
        byname.setdefault(s.name, []).append(s)
    live_blocks = set()
    for b in m.byte_blocks:
        live_blocks.add(b.uuid)
    # no symbol may refer to a block outside the module
    for s in m.symbols:
        r = s.referent
        if isinstance(r, gtirb.ByteBlock) and (r.uuid not in live_blocks or r.module is not m):
            raise core.Violation("C02", "label-in-removed-block", {"symbol": s.name}, {"kind": "removed-block"})
        if isinstance(r, gtirb.ProxyBlock) and r not in m.proxies:
            raise core.Violation("C02", "proxy-not-in-module", {"symbol": s.name}, {"kind": "proxy"})
    seen = set()
    for sname, u in model.units():
        o = mt.unit_obs.get(u.id)
        if o is None:
            continue
        pm = mt.posmap[u.id]
        pads = dict(mt.pads[u.id])
        for i, t in enumerate(u.toks):
            if t.kind != "label":
                continue
            seen.add(t.name)
            syms = byname.get(t.name, [])
            if len(syms) != 1:
                raise core.Violation("C02", "label-position", {"symbol": t.name, "what": f"{len(syms)} symbols with this name"}, {"kind": "multiplicity"})
            s = syms[0]
            r = s.referent
            if not isinstance(r, gtirb.ByteBlock):
                raise core.Violation(
                    "C02",
                    "label-position",
                    {"symbol": t.name, "what": "label is no longer attached to a block", "referent": type(r).__name__},
                    {"kind": "lost-referent", "origin": "orig" if t.origin == "orig" else "patch"},
                )
            if r.address is None:
                raise core.Violation("C02", "label-position", {"symbol": t.name, "what": "referent has no address"}, {"kind": "no-address"})
            real = r.address + (r.size if s.at_end else 0)
            want = o.addr + pm[i]
            ok = real == want
            if not ok:
                # a label at a padded boundary may sit on either side
                before = want - o.addr
                for (pr, pl) in mt.pads[u.id]:
                    if pr + pl == before and real == o.addr + pr:
                        ok = True
                    if pr == before and real == o.addr + pr + pl:
                        ok = True
            if not ok:
                raise core.Violation(
                    "C02",
                    "label-position" if t.origin == "orig" else "patch-label-position",
                    {"symbol": t.name, "expected_addr": want, "real_addr": real, "at_end": bool(s.at_end), "unit": u.id},
                    {"kind": "moved", "origin": "orig" if t.origin == "orig" else "patch"},
                )
    for name in model.proxy_syms:
        for s in byname.get(name, []):
            if not isinstance(s.referent, gtirb.ProxyBlock):
                raise core.Violation("C02", "label-position", {"symbol": name, "what": "expected a proxy referent", "referent": repr(s.referent)[:80]}, {"kind": "not-proxy"})
