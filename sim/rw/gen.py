"""Scenario generators (DESIGN 3.2): modules and edit histories.

Everything is drawn from named sub-streams of the run seed.  Output is pure
data (JSON-able)."""

PLAIN = ["nop", "push", "pop", "movi", "xor", "inc", "nop5"]
REGS = ["rax", "rcx", "rdx", "rbx", "rsi", "rdi"]


class IdGen:
    def __init__(self):
        self.n = 0

    def __call__(self, prefix):
        self.n += 1
        return f"{prefix}{self.n}"


def gen_module(rng, params):
    isa = params.get("isa") or rng.choices(["x64", "arm64", "ia32"], weights=params.get("isa_weights", [100, 0, 0]))[0]
    if isa == "x64":
        fmt = rng.choices(["elf", "pe"], weights=[75, 25])[0]
    elif isa == "ia32":
        fmt = "pe"
    else:
        fmt = "elf"
    if params.get("fmt"):
        fmt = params["fmt"]
    pie = fmt == "elf" and rng.random() < 0.6
    ids = IdGen()
    desc = {"isa": isa, "fmt": fmt, "pie": pie, "sections": [], "externs": [], "funcs": {}, "entry_point": None}
    n_ext = rng.randint(0, 2)
    desc["externs"] = [f"ext{i}" for i in range(n_ext)]
    nblocks = rng.randint(1, params.get("max_blocks", 10))
    want_funcs = rng.random() < 0.85
    desc["no_function_tables"] = not want_funcs
    data_in_text = rng.random() < 0.35
    with_data_section = rng.random() < 0.6
    multi_unit = rng.random() < params.get("multi_unit", 0.25)

    # block skeletons for .text
    blocks = []
    code_labels = []
    data_labels = []
    for i in range(nblocks):
        kind = "data" if (data_in_text and i > 0 and rng.random() < 0.2) else "code"
        b = {"id": ids("b"), "kind": kind, "labels": [], "end_labels": [], "items": []}
        nl = rng.choices([0, 1, 2, 3], weights=[35, 45, 15, 5])[0]
        for _ in range(nl):
            nm = ids("L")
            b["labels"].append(nm)
            (code_labels if kind == "code" else data_labels).append(nm)
        if rng.random() < params.get("end_label_p", 0.2):
            for _ in range(rng.randint(1, 2)):
                b["end_labels"].append(ids("E"))
        blocks.append(b)
    if not any(b["kind"] == "code" for b in blocks):
        blocks[0]["kind"] = "code"
    # functions: contiguous runs of code blocks
    funcs = {}
    if want_funcs:
        i = 0
        fcount = 0
        while i < len(blocks):
            if blocks[i]["kind"] != "code" or rng.random() < 0.2 or fcount >= 4:
                i += 1
                continue
            fid = f"F{fcount}"
            fcount += 1
            run = rng.randint(1, 4)
            first = True
            j = i
            while j < len(blocks) and j < i + run:
                if blocks[j]["kind"] == "code":
                    blocks[j]["func"] = fid
                    if first or rng.random() < 0.1:
                        blocks[j]["entry"] = True
                    if first:
                        nm = f"fn{fcount - 1}"
                        if fcount == 2 and rng.random() < params.get("main_p", 0.3):
                            nm = "main"
                        blocks[j]["labels"].insert(0, nm)
                        code_labels.append(nm)
                        funcs[fid] = {"name": nm}
                        first = False
                j += 1
            i = j
    nameless = []
    if params.get("nameless_p") and len([f for f in funcs.values() if f["name"] != "main"]) >= 2 and rng.random() < params["nameless_p"]:
        # a stripped module: two functions have no name at all (no
        # functionNames entry, no symbol on their entry blocks); the library
        # calls both "<unknown>" - which is a display name, not an identity
        nameless = rng.sample(sorted(f for f in funcs if funcs[f]["name"] != "main"), 2)
        for fid in nameless:
            funcs[fid] = {"name": "<unknown>", "nameless": True}
            for b in blocks:
                if b.get("func") == fid and b.get("entry"):
                    for nm in b["labels"]:
                        if nm in code_labels:
                            code_labels.remove(nm)
                    b["labels"] = []
                    b["end_labels"] = []
    desc["funcs"] = funcs
    entry_labels = [f["name"] for f in funcs.values() if not f.get("nameless")]
    if len(funcs) >= 2 and rng.random() < params.get("shared_block_p", 0.0):
        # a shared tail: the last block of one function is also listed in
        # the functionBlocks of another (which function a block 'belongs to'
        # is then the implementation's choice; only C11 uses such modules:
        # the choice must not depend on UUIDs or hash seeds)
        fid = rng.choice(sorted(funcs))
        tail = [b for b in blocks if b.get("func") == fid and not b.get("entry")]
        if tail:
            tail[-1]["func2"] = rng.choice([f for f in sorted(funcs) if f != fid])

    # data section
    dblocks = []
    if with_data_section:
        for i in range(rng.randint(1, 4)):
            b = {"id": ids("b"), "kind": "data", "labels": [], "end_labels": [], "items": []}
            if rng.random() < 0.8:
                nm = ids("Dt")
                b["labels"].append(nm)
                data_labels.append(nm)
            if rng.random() < 0.15:
                b["end_labels"].append(ids("E"))
            dblocks.append(b)

    all_labels_for_data_refs = code_labels + data_labels + desc["externs"]

    def fill_code(b, last_in_section, next_is_code):
        n = rng.randint(1, 5)
        for k in range(n):
            v = rng.choice(PLAIN)
            it = {"id": ids("i"), "v": v}
            if v in ("push", "pop", "movi"):
                it["r"] = rng.choice(REGS)
            if v == "movi":
                it["imm"] = rng.getrandbits(24) | 0x01000000
            if isa == "arm64" and v not in ("nop", "movi"):
                it = {"id": it["id"], "v": "nop"}
            if isa == "ia32" and v == "nop5":
                it["v"] = "nop"
            b["items"].append(it)
            if rng.random() < 0.12 and (code_labels or data_labels) and isa != "ia32":
                tgt = rng.choice(code_labels + data_labels)
                b["items"].append({"id": ids("i"), "v": "adrp" if isa == "arm64" else "lea", "t": tgt})
            elif rng.random() < 0.06 and desc["externs"] and isa == "x64" and pie:
                b["items"].append({"id": ids("i"), "v": "ldq", "t": rng.choice(desc["externs"])})
        # terminator
        r = rng.random()
        term = None
        if r < 0.18 and code_labels:
            term = {"v": rng.choice(["jmp", "jmp8"]) if isa != "arm64" else "jmp", "t": rng.choice(code_labels)}
        elif r < 0.36 and code_labels:
            term = {"v": rng.choice(["jcc", "jcc8"]) if isa != "arm64" else "jcc", "t": rng.choice(code_labels)}
        elif r < 0.54 and (entry_labels or desc["externs"] or code_labels):
            pool = entry_labels * 3 + desc["externs"] + (code_labels if rng.random() < 0.15 else [])
            if pool:
                term = {"v": "call", "t": rng.choice(pool)}
        elif r < 0.70:
            term = {"v": "ret"}
        elif r < 0.75:
            term = {"v": "ijmp"}
        elif r < 0.80:
            term = {"v": "icall"}
        elif r < 0.80 + params.get("syscall_p", 0.0) and isa != "arm64":
            term = {"v": "syscall"}
        if (term is None or term["v"] in ("jcc", "jcc8", "call", "icall", "syscall")) and (last_in_section or not next_is_code):
            # do not run off the end of code
            if rng.random() >= params.get("wild", 0.0):
                term = {"v": rng.choice(["ret", "ret", "ijmp"])}
        if term:
            term["id"] = ids("i")
            b["items"].append(term)

    def fill_data(b):
        n = rng.randint(1, 3)
        for k in range(n):
            r = rng.random()
            if r < 0.5 or not all_labels_for_data_refs:
                b["items"].append({"id": ids("d"), "v": "bytes", "hex": bytes(rng.getrandbits(8) for _ in range(rng.randint(1, 8))).hex()})
            elif r < 0.85:
                b["items"].append({"id": ids("d"), "v": "quad", "t": rng.choice(all_labels_for_data_refs), "a": rng.choice([0, 0, 4, -8])})
            elif len(code_labels + data_labels) >= 2:
                t1, t2 = rng.sample(code_labels + data_labels, 2)
                b["items"].append({"id": ids("d"), "v": "diff", "t": t1, "t2": t2})
            else:
                b["items"].append({"id": ids("d"), "v": "zero", "n": rng.randint(1, 6)})

    for i, b in enumerate(blocks):
        nxt_code = i + 1 < len(blocks) and blocks[i + 1]["kind"] == "code"
        if b["kind"] == "code":
            fill_code(b, i + 1 == len(blocks), nxt_code)
        else:
            fill_data(b)
    for b in dblocks:
        fill_data(b)

    # offset-keyed annotations (comments / padding), block- and interval-keyed
    ap = params.get("annot_p", 0.15)
    for b in blocks + dblocks:
        for it in b["items"]:
            if rng.random() < ap:
                size = _item_size(isa, b["kind"], it)
                ann = {}
                for _ in range(rng.randint(1, 2)):
                    table = rng.choice(["comments", "padding"])
                    keying = rng.choice(["b", "i"])
                    rel = rng.choice([0, 0, size - 1, rng.randrange(size)])
                    ann[f"{table}/{keying}@{rel}"] = (f"c-{it['id']}-{rel}" if table == "comments" else rng.randint(1, 9))
                it["ann"] = ann
    # CFI procedures (x86-64 ELF): contiguous runs of code blocks
    if isa == "x64" and (fmt == "elf" or params.get("cfi_pe")) and rng.random() < params.get("cfi_p", 0.0):
        _gen_cfi(rng, isa, blocks, desc, data_labels, ids)
    # symbol tables for delete_symbol (C19)
    if rng.random() < params.get("symtabs_p", 0.0):
        names = code_labels + data_labels + desc["externs"]
        st = {}
        if fmt == "elf":
            st["elf_info"] = [n for n in names if rng.random() < 0.7]
            st["tabidx"] = {n: [[rng.choice([".symtab", ".dynsym"]), rng.randint(0, 50)] for _ in range(rng.randint(1, 2))] for n in names if rng.random() < 0.4}
            if names and rng.random() < 0.7:
                defs = {"1": [["libtest.so"], 1]}
                reqs = {}
                entries = {}
                nid = 2
                shared = []
                for n in names:
                    if rng.random() < 0.5:
                        continue
                    if n in desc["externs"]:
                        lib = rng.choice(["libc.so.6", "libm.so.6"])
                        if shared and rng.random() < 0.4 and any(s[0] == lib for s in shared):
                            vid = rng.choice([s[1] for s in shared if s[0] == lib])
                        else:
                            vid = nid
                            nid += 1
                            reqs.setdefault(lib, {})[str(vid)] = f"VER_{vid}"
                            shared.append((lib, vid))
                    else:
                        if shared and rng.random() < 0.3 and any(s[0] is None for s in shared):
                            vid = rng.choice([s[1] for s in shared if s[0] is None])
                        else:
                            vid = nid
                            nid += 1
                            defs[str(vid)] = [[f"V_{vid}"] + ([f"V_OLD{vid}"] if rng.random() < 0.3 else []), 0]
                            shared.append((None, vid))
                    entries[n] = [vid, rng.random() < 0.2]
                st["versions"] = {"defs": defs, "reqs": reqs, "entries": entries}
        else:
            st["pe_imports"] = [n for n in desc["externs"] if rng.random() < 0.7]
            st["pe_exports"] = [n for n in code_labels if rng.random() < 0.3]
        desc["symtabs"] = st
    # symbolForwarding entries (extern -> some symbol)
    if desc["externs"] and rng.random() < params.get("fwd_p", 0.0):
        pool = code_labels + data_labels + desc["externs"]
        desc["symbol_forwarding"] = [[e, rng.choice(pool)] for e in desc["externs"] if rng.random() < 0.6]
    # alignment
    if rng.random() < params.get("align_p", 0.3):
        for b in blocks + dblocks:
            if rng.random() < 0.3:
                b["align"] = rng.choice([2, 4, 8, 16])
        desc["alignment_table"] = True
    elif fmt == "pe":
        desc["alignment_table"] = rng.random() < 0.3

    # units
    def split_units(bl, base, uprefix):
        units = []
        cur = []
        for i, b in enumerate(bl):
            cur.append(b)
            if multi_unit and i + 1 < len(bl) and rng.random() < 0.3:
                units.append(cur)
                cur = []
        if cur:
            units.append(cur)
        out = []
        addr = base
        for k, bs in enumerate(units):
            if params.get("align_fill_p"):
                # make later alignment requirements of the unit hold as well:
                # the block in front gets filler of its own (nops at its
                # start / a run of zeros), the way a compiler pads - several
                # aligned blocks per byte interval then survive _fix_alignment
                first_seen = False
                pos = 0
                for bi_, b in enumerate(bs):
                    if b.get("align") and not first_seen:
                        first_seen = True  # (the unit's base address takes care of the first one)
                        pos = 0
                    elif b.get("align") and first_seen and pos % b["align"] and rng.random() < params["align_fill_p"]:
                        prev = bs[bi_ - 1]
                        gap = (-pos) % b["align"]
                        step = 4 if isa == "arm64" else 1
                        if not prev.get("cfi") and gap % step == 0:
                            if prev["kind"] == "code":
                                prev["items"][0:0] = [{"id": ids("i"), "v": "nop"} for _ in range(gap // step)]
                            else:
                                prev["items"].insert(0, {"id": ids("d"), "v": "zero", "n": gap})
                            pos += gap
                    pos += _block_size(isa, b)
            size = sum(_block_size(isa, b) for b in bs)
            first_align = next((b["align"] for b in bs if b.get("align")), None)
            if first_align:
                # keep the first aligned block aligned in the input
                pre = 0
                for b in bs:
                    if b.get("align"):
                        break
                    pre += _block_size(isa, b)
                while (addr + pre) % first_align:
                    addr += 1
            out.append({"id": f"{uprefix}{k}", "addr": addr, "blocks": bs})
            addr += size
        return out, addr

    tunits, end = split_units(blocks, 0x1000, "t")
    _fix_alignment(isa, tunits)
    desc["sections"].append({"name": ".text", "flags": "rx", "units": tunits})
    if dblocks:
        dunits, _ = split_units(dblocks, (end + 0xFFF) & ~0xFFF, "d")
        _fix_alignment(isa, dunits)
        desc["sections"].append({"name": ".data", "flags": "rw", "units": dunits})
    # entry point
    code_blocks = [b for b in blocks if b["kind"] == "code"]
    if rng.random() < 0.5:
        desc["entry_point"] = rng.choice(code_blocks)["id"]
    if nameless:
        # ... and the program starts in one of them
        desc["entry_point"] = next(b["id"] for b in blocks if b.get("func") == nameless[0] and b.get("entry"))
    if fmt == "elf" and rng.random() < params.get("dt_p", 0.3):
        # ELF DT_INIT / DT_FINI (elfDynamicInit / elfDynamicFini aux data)
        if rng.random() < 0.7:
            desc["dt_init"] = rng.choice(code_blocks)["id"]
        if rng.random() < 0.7:
            desc["dt_fini"] = rng.choice(code_blocks)["id"]
    if rng.random() < params.get("abs_p", 0.3):
        desc["abs_syms"] = ["ABS%d" % i for i in range(rng.randint(1, 2))]
    if fmt == "pe" and rng.random() < params.get("seh_p", 0.5):
        # PE SafeSEH handler list (peSafeExceptionHandlers aux data)
        desc["safe_seh"] = sorted({rng.choice(code_blocks)["id"] for _ in range(rng.randint(1, 3))})
    return desc


def _gen_cfi(rng, isa, blocks, desc, data_labels, ids):
    """0-3 CFI procedures with directives at block starts, instruction
    boundaries and block ends, personality / LSDA symbols.  Built so that
    they evaluate cleanly (register+offset CFA throughout)."""
    code_idx = [i for i, b in enumerate(blocks) if b["kind"] == "code"]
    if not code_idx:
        return
    i = 0
    nproc = 0
    while i < len(blocks) and nproc < 3:
        if blocks[i]["kind"] != "code" or rng.random() < 0.3:
            i += 1
            continue
        # extend over consecutive code blocks
        j = i
        while j + 1 < len(blocks) and blocks[j + 1]["kind"] == "code" and rng.random() < 0.6:
            j += 1
        nproc += 1

        def add(b, off, d):
            b.setdefault("cfi", {}).setdefault(str(off), []).append(d)

        first = blocks[i]
        add(first, 0, [".cfi_startproc", [], None])
        if rng.random() < 0.3 and desc["externs"]:
            add(first, 0, [".cfi_personality", [0x9B], rng.choice(desc["externs"])])
        if rng.random() < 0.3 and data_labels:
            add(first, 0, [".cfi_lsda", [0x1B], rng.choice(data_labels)])
        add(first, 0, [".cfi_def_cfa", [7, 8], None])
        add(first, 0, [".cfi_offset", [16, -8], None])
        cfa_off = 8
        depth = 0
        for k in range(i, j + 1):
            b = blocks[k]
            off = 0
            for n, it in enumerate(b["items"]):
                size = _item_size(isa, "code", it)
                boundary = off + size  # after this instruction
                if rng.random() < 0.25 and not (k == j and n == len(b["items"]) - 1 and rng.random() < 0.5):
                    r = rng.random()
                    if r < 0.4:
                        d = rng.choice([8, -8, 16])
                        if cfa_off + d >= 8:
                            cfa_off += d
                            add(b, boundary, [".cfi_adjust_cfa_offset", [d], None])
                    elif r < 0.6:
                        add(b, boundary, [".cfi_offset", [rng.choice([3, 6, 12, 13]), -rng.choice([16, 24, 32])], None])
                    elif r < 0.75:
                        add(b, boundary, [".cfi_remember_state", [], None])
                        depth += 1
                    elif r < 0.9 and depth > 0:
                        add(b, boundary, [".cfi_restore_state", [], None])
                        depth -= 1
                    else:
                        cfa_off = rng.choice([8, 16, 24])
                        add(b, boundary, [".cfi_def_cfa_offset", [cfa_off], None])
                off = boundary
        last = blocks[j]
        lsize = sum(_item_size(isa, "code", it) for it in last["items"])
        if j + 1 < len(blocks) and blocks[j + 1]["kind"] == "code" and rng.random() < 0.4:
            blocks[j + 1].setdefault("cfi", {}).setdefault("0", []).insert(0, [".cfi_endproc", [], None])
        else:
            add(last, lsize, [".cfi_endproc", [], None])
        i = j + 1


def _item_size(isa, kind, it):
    from . import build, vocab

    v = vocab.get(isa)
    if kind == "code":
        return len(v.encode(it)[0])
    return len(build.data_item_bytes({"isa": isa}, it, v.ptr)[0])


def _block_size(isa, b):
    from . import build, vocab

    v = vocab.get(isa)
    n = 0
    for it in b["items"]:
        if b["kind"] == "code":
            n += len(v.encode(it)[0])
        else:
            n += len(build.data_item_bytes({"isa": isa}, it, v.ptr)[0])
    return n


def _fix_alignment(isa, units):
    """Drop alignment requirements that the generated layout does not
    satisfy (the property speaks of requirements that held before)."""
    for u in units:
        addr = u["addr"]
        for b in u["blocks"]:
            if b.get("align") and addr % b["align"]:
                del b["align"]
            addr += _block_size(isa, b)


# --------------------------------------------------------------------------
# patches


def gen_patch(rng, model, params, world_labels, ids, allow_cf=True, in_data=False):
    """-> patch descriptor"""
    lines = []
    tpre = f"s{ids.n // 1000}t"
    n = rng.randint(1, 4)
    own = []
    isa = params["_isa"]
    use_marker = rng.random() < 0.7
    if use_marker and not in_data:
        lines.append({"marker": True})
    code_targets = world_labels["code"]
    for k in range(n):
        r = rng.random()
        if in_data:
            if k > 0 and rng.random() < 0.2:
                # a label between two data items of the patch (a table entry
                # with a name): it designates the item that follows it
                nm = f"{tpre}{len(own)}"
                own.append((nm, True))
                lines.append({"label": nm, "temp": True})
            r2 = rng.random()
            if r2 < 0.6:
                nb = rng.randint(1, 6)
                lines.append({"raw": ".byte " + ", ".join(str(rng.getrandbits(8)) for _ in range(nb))})
            elif r2 < 0.7:
                lines.append({"raw": '.string "s%d"' % rng.randint(0, 99)})
            elif r2 < 0.8:
                # (.uleb128 with a constant is refused by the assembler:
                # UnsupportedAssemblyError, a documented limitation)
                lines.append({"raw": '.ascii "a%d"' % rng.randint(0, 99)})
            elif r2 < 0.9:
                lines.append({"raw": ".zero %d" % rng.randint(1, 5)})
            elif world_labels["all"] and isa != "arm64":
                pool = world_labels["all"] + (world_labels.get("abs") or []) * 2
                lines.append({"raw": (".quad " if isa == "x64" else ".long ") + rng.choice(pool)})
            else:
                lines.append({"raw": ".byte 1"})
            continue
        if r < 0.45:
            v = rng.choice(["nop", "push", "pop", "movi", "xor"]) if isa != "arm64" else rng.choice(["nop", "movi"])
            it = {"v": v}
            if v in ("push", "pop", "movi"):
                it["r"] = rng.choice(REGS)
            if v == "movi":
                it["imm"] = rng.getrandbits(20) | 0x02000000
            lines.append(it)
        elif r < 0.6:
            nm = f"{tpre}{len(own)}"
            temp = rng.random() < 0.8
            if not temp:
                nm = ids("G")
            own.append((nm, temp))
            lines.append({"label": nm, "temp": temp})
            lines.append({"v": "nop"})
        elif allow_cf and r < 0.9:
            kind = rng.choice(["jmp", "jcc", "call", "ret", "ijmp", "icall", "jcc", "call"])
            # a patch holds a ret or a direct call, not both (return edges
            # between a patch's own call and its own ret are not specified)
            have = {l.get("v") for l in lines if "v" in l}
            if (kind == "ret" and "call" in have) or (kind == "call" and "ret" in have):
                kind = "jcc"
            it = {"v": kind}
            if kind in ("jmp", "jcc", "call"):
                choices = []
                if own and rng.random() < 0.4:
                    nm, temp = rng.choice(own)
                    it["t"] = nm
                    it["ttemp"] = temp
                else:
                    pool = list(code_targets)
                    if kind == "call":
                        pool = world_labels["entries"] * 3 + world_labels["externs"] + pool[:2]
                    if not pool:
                        it = {"v": "nop"}
                    else:
                        it["t"] = rng.choice(pool)
            lines.append(it)
        else:
            if world_labels["all"] and isa == "arm64":
                # a relocation modifier, with and without an addend
                lines.append({"v": "addlo", "t": rng.choice(world_labels["all"]), "a": rng.choice([0, 0, 8, 16, 24])})
            elif world_labels["all"] and isa == "x64":
                if rng.random() < 0.3:
                    lines.append({"v": "cmpmi", "t": rng.choice(world_labels["all"]), "imm": rng.randint(1, 100)})
                else:
                    lines.append({"v": "lea", "t": rng.choice(world_labels["all"])})
            else:
                lines.append({"v": "nop"})
    if own and rng.random() < 0.3 and allow_cf and not in_data:
        nm, temp = rng.choice(own)
        lines.append({"v": "jcc", "t": nm, "ttemp": temp})
    if (
        params.get("patch_cfi_p", 0.0)
        and not in_data
        and isa == "x64"
        and rng.random() < params["patch_cfi_p"]
        and not any(l.get("v") in ("jmp", "jcc", "call", "ret", "ijmp", "icall") for l in lines)
    ):
        # balanced CFI of the patch's own
        d = rng.choice([8, 16])
        insn_idx = [i for i, l in enumerate(lines) if "label" not in l][1:]
        if insn_idx and rng.random() < 0.3:
            # the state is saved and restored around the patch's own change;
            # temporary labels between the directives give each its own
            # (empty) block, which the assembler folds together again - the
            # order of the directives at that point must survive
            k = rng.choice(insn_idx)
            n0 = len(own)
            own.extend([(f"{tpre}{n0}", True), (f"{tpre}{n0 + 1}", True)])
            head = [{"label": f"{tpre}{n0}", "temp": True}, {"raw": ".cfi_remember_state"}, {"label": f"{tpre}{n0 + 1}", "temp": True}, {"raw": f".cfi_adjust_cfa_offset {d}"}]
            if rng.random() < 0.3:
                head.pop(0)
            lines[k:k] = head
            lines.insert(rng.randrange(k + len(head) + 1, len(lines) + 1), {"raw": ".cfi_restore_state"})
        elif insn_idx:
            # (a directive describes the effect of the instruction in front
            # of it, so the first one follows the patch's first instruction)
            k = rng.choice(insn_idx)
            lines.insert(k, {"raw": f".cfi_adjust_cfa_offset {d}"})
            # ... at least the instruction at k+1 is enclosed
            lines.insert(rng.randrange(k + 2, len(lines) + 1), {"raw": f".cfi_adjust_cfa_offset -{d}"})
    if params.get("patch_align_p", 0.0) and isa != "arm64" and rng.random() < params["patch_align_p"] and lines:
        # an alignment requirement of the patch's own
        lab_idx = [i for i, l in enumerate(lines) if "label" in l]
        at = rng.choice(lab_idx) if lab_idx and rng.random() < 0.4 else (0 if rng.random() < 0.3 else rng.randrange(len(lines)))
        lines.insert(at, {"raw": f".align {rng.choice([2, 4, 8, 16])}"})
    if rng.random() < 0.15:
        # trailing label: forces a new block after the patch (in a data
        # block: a label between the inserted bytes and the rest)
        nm = f"{tpre}{len(own)}"
        own.append((nm, True))
        if lines and "raw" in lines[-1] and lines[-1]["raw"].startswith(".cfi") and rng.random() < 0.6:
            # ... in front of the patch's last CFI directive: the directive
            # then belongs to the (empty) block the label opens
            lines.insert(len(lines) - 1, {"label": nm, "temp": True})
            if allow_cf and code_targets and rng.random() < 0.5 and not any(l.get("raw") == ".cfi_remember_state" for l in lines):
                # ... and the code in front of the label leaves with a jump
                # (call emulation: the label is the "return address"); the
                # label's block is empty, unreachable, and carries the
                # patch's closing directive
                lines.insert(len(lines) - 2, {"v": "jmp", "t": rng.choice(code_targets)})
        else:
            lines.append({"label": nm, "temp": True})
    out = {"lines": lines}
    if params.get("other_sect_p", 0.0) and not in_data and isa != "arm64" and rng.random() < params["other_sect_p"]:
        # the patch also brings contents for another section (a string, a
        # table, ...) that its code refers to through a temporary label
        nm = f"{tpre}d{len(own)}"
        olines = [{"label": nm, "temp": True}]
        for _ in range(rng.randint(1, 3)):
            k = rng.random()
            if k < 0.4:
                olines.append({"raw": ".byte " + ", ".join(str(rng.getrandbits(8)) for _ in range(rng.randint(1, 6)))})
            elif k < 0.6:
                olines.append({"raw": '.string "o%d"' % rng.randint(0, 99)})
            elif k < 0.8 and world_labels["all"]:
                olines.append({"raw": (".quad " if isa == "x64" else ".long ") + rng.choice(world_labels["all"])})
            else:
                olines.append({"raw": ".zero %d" % rng.randint(1, 4)})
        out["other"] = {"sect": rng.choice([".data", ".data", ".mydata"]), "lines": olines}
        if isa == "x64":
            lines.append({"v": "lea", "t": nm, "ttemp": True})
    if params.get("constraints_p", 0.0) and not in_data and rng.random() < params["constraints_p"]:
        # the library wraps the patch in an ABI prologue / epilogue
        regs = {"x64": ["rax", "rbx", "rcx", "rdx", "rsi", "rdi", "r8", "r9", "r10", "r11", "r12"], "ia32": ["eax", "ebx", "ecx", "edx", "esi", "edi"], "arm64": ["x0", "x1", "x2", "x9", "x10", "x16", "x19"]}[isa]
        c = {}
        if rng.random() < 0.5:
            c["flags"] = True
        if rng.random() < 0.5:
            c["clobbers"] = sorted(rng.sample(regs, rng.randint(1, 4)))
        if rng.random() < 0.3:
            c["scratch"] = rng.randint(1, 2)
        if rng.random() < 0.4:
            c["caller_saved"] = True
        if rng.random() < 0.25:
            c["align_stack"] = True
        out["constraints"] = c
    return out


def labels_of(model):
    code, data, entries = [], [], []
    for s, u in model.units():
        toks = u.toks
        for i, t in enumerate(toks):
            if t.kind != "label":
                continue
            if t.att is None or t.at_end or not t.att.alive or not t.att.size:
                continue
            if t.att.kind == "code":
                code.append(t.name)
            else:
                data.append(t.name)
    for f in model.funcs.values():
        if f["name"] in code:
            entries.append(f["name"])
    externs = sorted(model.proxy_syms)
    return {"code": code, "data": data, "entries": entries, "externs": externs, "all": code + data, "abs": list(getattr(model, "abs_syms", []))}


# --------------------------------------------------------------------------
# sessions


def gen_session(rng, model, params, index):
    """Generate one session; reject shapes outside the stated preconditions
    (code that runs off the end of code into data or the end of a section,
    branches to labels that end up on data) unless the run is 'wild'."""
    wild = rng.random() < params.get("wild", 0.0)
    for attempt in range(6):
        sd = _gen_session(rng, model, params, index)
        if wild or shape_ok(model, sd, params):
            sd["wild"] = wild
            if sd["ops"] and rng.random() < params.get("debug_log_p", 0.08):
                sd["debug_log"] = True  # knob: DEBUG logging reads the IR in mid-rewrite
            return sd
    return {"ops": [], "reg_order": [], "wild": False}


def patch_shape_tokens(pdesc, isa):
    """Kinds-only tokens of a patch descriptor (no bytes needed)."""
    from .model import Tok
    from . import vocab

    v = vocab.get(isa)
    toks = []
    if "bytes" in pdesc:
        return [Tok("data", "x", b=b"\0")]
    for ln in pdesc["lines"]:
        if "label" in ln:
            toks.append(Tok("label", "x", name="(patch)" + ln["label"]))
        elif "raw" in ln and (ln["raw"].startswith(".cfi") or ln["raw"].startswith(".align") or ln["raw"].startswith(".set")):
            continue
        elif "raw" in ln:
            toks.append(Tok("data", "x", b=b"\0"))
        elif "marker" in ln:
            toks.append(Tok("insn", "x", b=b"\0", ikind="plain"))
        else:
            toks.append(Tok("insn", "x", b=b"\0", ikind=v.kind(ln), target=ln.get("t") if not ln.get("ttemp") else None))
    if pdesc.get("constraints"):
        # the ABI prologue / epilogue the library wraps around the text
        toks.insert(0, Tok("insn", "x", b=b"\0", ikind="plain"))
        toks.append(Tok("insn", "x", b=b"\0", ikind="plain"))
    return toks


def make_exotic(rng, desc):
    """Turn a module descriptor into one with gaps before/between blocks,
    uninitialized tails (with and without blocks in them), zero-sized and
    overlapping blocks (C10 workload only; such modules only see empty
    sessions)."""
    desc = dict(desc)
    desc["exotic"] = True
    k = 0
    for sec in desc["sections"]:
        for u in sec["units"]:
            for b in u["blocks"]:
                if rng.random() < 0.25:
                    b["gap_before"] = rng.randint(1, 5)
                    b.pop("align", None)
            size = sum(_block_size(desc["isa"], b) + b.get("gap_before", 0) for b in u["blocks"])
            if rng.random() < 0.5:
                u["tail_uninit"] = rng.randint(1, 12)
                if rng.random() < 0.6:
                    u["uninit_blocks"] = [rng.randint(1, 4) for _ in range(rng.randint(1, 2))]
                    u["uninit_gap"] = rng.choice([0, 0, 2])
            ovs = []
            for _ in range(rng.choice([0, 0, 1, 2])):
                if size:
                    k += 1
                    ovs.append({"off": rng.randrange(size), "size": rng.choice([0, 0, 1, 2, 3]), "kind": "data", "label": f"OV{k}" if rng.random() < 0.5 else None})
            if ovs:
                u["overlays"] = ovs
    # addresses: keep units apart
    addr = 0x1000
    for sec in desc["sections"]:
        for u in sec["units"]:
            u["addr"] = addr
            addr += sum(_block_size(desc["isa"], b) + b.get("gap_before", 0) for b in u["blocks"]) + u.get("tail_uninit", 0) + rng.choice([0, 0, 3])
            for b in u["blocks"]:
                b.pop("align", None)
        addr = (addr + 0xFFF) & ~0xFFF
    desc["alignment_table"] = desc.get("alignment_table", True)
    return desc


def module_desc_ok(desc):
    """CFI of the module descriptor is well formed: displacements inside
    their block, .cfi_startproc/.cfi_endproc alternate, CFA defined."""
    isa = desc["isa"]
    for sec in desc["sections"]:
        open_ = False
        for u in sec["units"]:
            for b in u["blocks"]:
                size = _block_size(isa, b)
                cfi = b.get("cfi") or {}
                for k in sorted(cfi, key=int):
                    if not (0 <= int(k) <= size):
                        return False
                    for d in cfi[k]:
                        if d[0] == ".cfi_startproc":
                            if open_:
                                return False
                            open_ = True
                        elif d[0] == ".cfi_endproc":
                            if not open_:
                                return False
                            open_ = False
                        elif not open_:
                            return False
        if open_:
            return False
    return True


def module_shape_ok(model):
    from .vocab import NO_FALLTHROUGH

    for sname in model.section_order:
        seq = [t for u in model.sections[sname] for t in u.toks if t.is_bytes() and t.origin != "pad"]
        for a, b in zip(seq, seq[1:] + [None]):
            if a.kind == "insn" and a.ikind not in NO_FALLTHROUGH and a.ikind not in ("ret", "pad"):
                if b is None or b.kind != "insn":
                    return False
    return True


def ops_allowed(model, sd):
    """The combinations _avoid_ambiguous steers away from must also be
    absent from replayed / shrunk scenarios."""
    import copy

    from . import driver

    for op in sd["ops"]:
        if op["k"] == "delblock" and op.get("proxy"):
            try:
                key, _, _ = driver.resolve_op(model, op)
            except Exception:
                return False
            sp = model.spans[key]
            if sp.func and sum(1 for s2 in model.span_list[sp.sect] if s2.func == sp.func and s2.size) > 1:
                return False
    for op in sd["ops"]:
        # a zero-sized block kept by an earlier deletion still belongs to its
        # function: whether its labels are 'in' the function is a reading
        # the listing model does not have (DESIGN 9a)
        if op["k"] == "delfn" and any(s2.func == op["func"] and s2.size == 0 for lst in model.span_list.values() for s2 in lst):
            return False
    for op in sd["ops"]:
        if op["k"] == "insfn" and (op.get("patch") or {}).get("constraints"):
            return False
    for op in sd["ops"]:
        lines = (op.get("patch") or {}).get("lines")
        if lines is not None and not any("label" not in l and not ("raw" in l and (l["raw"].startswith(".cfi") or l["raw"].startswith(".align") or l["raw"].startswith(".set"))) for l in lines):
            return False  # a patch must assemble to at least one byte
        lines = lines or []
        adj = [int(l["raw"].split()[-1]) for l in lines if "raw" in l and "cfi_adjust_cfa_offset" in l["raw"]]
        saved = [l["raw"] for l in lines if "raw" in l and l["raw"] in (".cfi_remember_state", ".cfi_restore_state")]
        if saved:
            # remember ; adjust +d ; (at least one instruction) ; restore
            cf = [l["raw"].split()[0] for l in lines if "raw" in l and l["raw"].startswith(".cfi")]
            if cf != [".cfi_remember_state", ".cfi_adjust_cfa_offset", ".cfi_restore_state"] or op["k"] == "insfn" or adj[0] < 0:
                return False
            ia = next(i for i, l in enumerate(lines) if "raw" in l and "cfi_adjust" in l["raw"])
            ir_ = next(i for i, l in enumerate(lines) if l.get("raw") == ".cfi_restore_state")
            if not any("label" not in l and "raw" not in l for l in lines[ia + 1 : ir_]):
                return False
            if any(o["k"] in ("del", "delblock", "rep", "delfn") for o in sd["ops"]):
                return False
            if any(l.get("v") in ("jmp", "jcc", "call", "ret", "ijmp", "icall") for l in lines):
                return False
            i0 = next(i for i, l in enumerate(lines) if l.get("raw") == ".cfi_remember_state")
            if not any("label" not in l and "raw" not in l for l in lines[:i0]):
                return False
            continue
        if adj and (op["k"] == "insfn" or sum(adj) != 0 or len(adj) != 2 or adj[0] < 0):
            return False
        if adj and any(o["k"] in ("del", "delblock", "rep", "delfn") for o in sd["ops"]):
            return False
        if adj and any(l.get("v") in ("jmp", "jcc", "call", "ret", "ijmp", "icall") for l in lines[: _cfi_tail_jump(lines)]):
            return False
        if adj:
            first = next(i for i, l in enumerate(lines) if "raw" in l and "cfi_adjust_cfa_offset" in l["raw"])
            if not any("label" not in l and "raw" not in l for l in lines[:first]):
                return False
        if adj:
            # the adjusting directives must enclose at least one instruction
            idx = [i for i, l in enumerate(lines) if "raw" in l and "cfi_adjust_cfa_offset" in l["raw"]]
            if not any("label" not in l and "raw" not in l for l in lines[idx[0] + 1 : idx[1]]):
                return False
    if any(op["k"] == "reg" for op in sd["ops"]):
        if any(t.origin == "pad" for _, u in model.units() for t in u.toks):
            return False
        if any(sp.size == 0 and sp.kind == "code" for lst in model.span_list.values() for sp in lst):
            return False
        if any(op["k"] in ("del", "rep", "delblock", "delfn") for op in sd["ops"]):
            return False
    ops = copy.deepcopy(sd["ops"])
    before = json_key(ops)
    _avoid_ambiguous(model, ops)
    return json_key(ops) == before


def _cfi_tail_jump(lines):
    """Index up to which a CFI-carrying patch must be free of control flow:
    the one allowed shape with a terminator is `... jmp T; .Ltmp: .cfi_x`
    (jump, trailing label, the patch's closing directive)."""
    if len(lines) >= 3 and lines[-3].get("v") == "jmp" and "label" in lines[-2] and (lines[-1].get("raw") or "").startswith(".cfi"):
        return len(lines) - 3
    return len(lines)


def json_key(x):
    import json

    return json.dumps(x, sort_keys=True)


def shape_ok(model, sd, params):
    from . import driver
    from .vocab import NO_FALLTHROUGH

    m = model.clone()
    isa = params["_isa"]

    def rule1(mm, calls_only=False):
        """nothing falls off the end of code (calls_only: only a call needs
        code behind it - its return site)"""
        for sname in mm.section_order:
            # (nop padding is transparent; zero padding - which the library
            # uses in front of an aligned block that starts a byte interval -
            # is data like any other)
            seq = [t for u in mm.sections[sname] for t in u.toks if t.is_bytes() and not (t.origin == "pad" and t.kind == "insn")]
            for a, b in zip(seq, seq[1:] + [None]):
                if a.kind == "insn" and a.ikind not in NO_FALLTHROUGH and a.ikind not in ("ret", "pad"):
                    if calls_only and a.ikind not in ("call", "icall"):
                        continue
                    if b is None or b.kind != "insn":
                        return False
        return True

    try:
        mods = []
        for oi, op in enumerate(sd["ops"]):
            if op["k"] in ("insfn", "reg", "retarget", "delsym", "extern"):
                continue
            for key, off, length, op2 in driver.expand_op(m, op):
                sp = m.spans[key]
                mods.append(((m.section_order.index(sp.sect), m.sections[sp.sect].index(sp.unit), sp.start), off, oi, op2, length, key))
        mods.sort(key=lambda x: (x[0], x[1], x[2]))
        for _, off, oi, op, length, key in mods:
            if op["k"] in ("del", "delblock"):
                m.delete(key, off, length, proxy=bool(op.get("proxy")))
            else:
                if length:
                    m.delete(key, off, length, replacing=True)
                m.insert(key, off, patch_shape_tokens(op["patch"], isa), replace_len=length)
            # the rule must hold after every step: the engine applies the
            # modifications one after the other
            if not rule1(m, calls_only=bool(params.get("allow_fall_off"))):
                return False
    except Exception:
        return False
    targets = set()
    patch_targets = set()
    mp = {op["a"]: op["b"] for op in sd["ops"] if op["k"] == "retarget"}
    for sname in m.section_order:
        for u in m.sections[sname]:
            for a in u.toks:
                if a.kind == "insn" and a.ikind in ("jmp", "jcc", "call") and a.target:
                    targets.add(mp.get(a.target, a.target))
                    if a.id == "x":
                        patch_targets.add(mp.get(a.target, a.target))
    for op in sd["ops"]:
        for l in (op.get("patch") or {}).get("lines") or []:
            if l.get("v") in ("jmp", "jcc", "call") and l.get("t") and not l.get("ttemp"):
                # a patch is assembled while the modifications are applied,
                # i.e. before the retargets: its own operand must label code
                targets.add(l["t"])
                targets.add(mp.get(l["t"], l["t"]))
                patch_targets.add(l["t"])
                patch_targets.add(mp.get(l["t"], l["t"]))
    # a control-flow target must not be an end-of-block label (the edge
    # would lead to the start of its block)
    for sname in m.section_order:
        for u in m.sections[sname]:
            for t in u.toks:
                if t.kind == "label" and t.name in targets and t.at_end:
                    return False
    # the new symbol of a retarget does not sit directly in front of padding
    # the library made (the label then names the padding block itself, which
    # belongs to no function, while in the listing it names what follows)
    newsyms = {op["b"] for op in sd["ops"] if op["k"] == "retarget"} | patch_targets  # (same for the operand of a branch/call a patch brings)
    if newsyms:
        for sname in m.section_order:
            for u in m.sections[sname]:
                for i, t in enumerate(u.toks):
                    if t.kind == "label" and t.name in newsyms:
                        nb = next((x for x in u.toks[i + 1 :] if x.is_bytes()), None)
                        if nb is not None and nb.origin == "pad":
                            return False
    # rule 2: control-flow targets label code (not demanded where only the
    # tables / well-formedness are judged: a deleted branch target in front
    # of data is kept as a zero-sized code block, doc/Deletion.md)
    if params.get("allow_target_on_data"):
        targets = patch_targets  # (the assembler refuses a patch that branches to data)
    for sname in m.section_order:
        for u in m.sections[sname]:
            toks = u.toks
            for i, t in enumerate(toks):
                if t.kind == "label" and t.name in targets:
                    nb = None
                    from . import expect

                    nb = expect.next_byte_token(m, sname, u, i)
                    if nb is None or nb[1].kind != "insn":
                        return False
    return True


def gen_scope(rng, model, spans):
    """-> scope descriptor"""
    names = [f["name"] for f in model.funcs.values()]

    def name_filter():
        if rng.random() < 0.35 or not names:
            return None
        if rng.random() < 0.12:
            return []  # an empty filter (e.g. an intersection that came out empty): selects nothing
        out = []
        for _ in range(rng.randint(1, 2)):
            r = rng.random()
            if r < 0.4:
                out.append(rng.choice(names))
            elif r < 0.6:
                out.append({"re": rng.choice(["fn[0-9]+", "fn1|fn2", ".*", "fn0.*", "m.*", "nf.*"])})
            elif r < 0.8:
                out.append("MAIN")
            else:
                out.append("ENTRYPOINT")
        return out

    pos = rng.choice(["ENTRY", "EXIT", "ANYWHERE"])
    r = rng.random()
    code_spans = [sp for sp in spans if sp.kind == "code"]
    if r < 0.4 or not code_spans:
        return {"t": "allblocks", "pos": pos, "exclude": name_filter()}
    if r < 0.65:
        sp = rng.choice(code_spans)
        return {"t": "single", "tok": sp.tok_ids[0], "pos": pos}
    return {"t": "allfuncs", "fpos": rng.choice(["ENTRY", "EXIT"]), "bpos": pos, "functions": name_filter()}


def gen_scope_session(rng, model, params, index):
    """A session of scope-based registrations (plus insert_at at specific
    places), optionally driven through a PassManager with several passes.
    No deletions: a scope applies to every block, and nothing may be
    registered after a whole-block deletion in the same block."""
    ids = IdGen()
    ids.n = 1000 * (index + 1)
    wl = labels_of(model)
    spans = [sp for lst in model.span_list.values() for sp in lst]
    if any(sp.size == 0 and sp.kind == "code" for sp in spans):
        return None  # insertion into a zero-sized block is outside the preconditions
    if any(t.origin == "pad" for _, u in model.units() for t in u.toks):
        # a scope applies to the padding blocks the library created as well;
        # what instrumenting alignment padding means is left open
        return None
    spans = [sp for sp in spans if sp.size]
    ops = []
    for _ in range(rng.randint(1, 4)):
        patch = gen_patch(rng, model, params, wl, ids, allow_cf=False)
        patch["lines"] = [l for l in patch["lines"] if "label" not in l] or [{"marker": True}]
        if not any("marker" in l for l in patch["lines"]):
            patch["lines"].insert(0, {"marker": True})
        ops.append({"k": "reg", "scope": gen_scope(rng, model, spans), "patch": patch})
        if rng.random() < 0.3 and spans:
            sp = rng.choice(spans)
            toks = sorted(sp.offsets.items())
            # (often the block start: the place where an ENTRY registration
            # made earlier and this insert_at meet at one offset)
            off, tid = toks[0] if rng.random() < 0.5 else rng.choice(toks)
            ops.append({"k": "ins", "at": tid, "side": "before", "patch": gen_patch(rng, model, params, wl, ids, allow_cf=False, in_data=sp.kind == "data")})
    if rng.random() < params.get("scope_insfn_p", 0.0) and params.get("_fmt") and ".text" in model.sections:
        # a function is added in the same rewrite: the scopes designate the
        # blocks the module has when the rewrite starts, not the new body
        body = gen_patch(rng, model, params, wl, ids, allow_cf=False)
        body["lines"] = [l for l in body["lines"] if "label" not in l and "raw" not in l] or [{"v": "nop"}]
        body["lines"].append({"v": "ret"})
        body.pop("constraints", None)
        ops.insert(rng.randrange(len(ops) + 1), {"k": "insfn", "name": f"nf{index}_s", "patch": body})
    sd = {"ops": ops, "reg_order": list(range(len(ops)))}
    if rng.random() < 0.6:
        # split into passes (order preserved)
        npass = rng.randint(1, 3)
        cuts = sorted(rng.sample(range(1, len(ops)), min(npass - 1, max(0, len(ops) - 1)))) if len(ops) > 1 else []
        passes = []
        prev = 0
        for c in cuts + [len(ops)]:
            passes.append(list(range(prev, c)))
            prev = c
        sd["mode"] = "pm"
        sd["passes"] = passes
    return sd


def gen_same_patch_session(rng, model, params, index):
    """The same patch (temporary labels, branches to its own labels,
    references to module symbols and externs) inserted N in 1..8 times in
    one rewrite."""
    import copy

    ids = IdGen()
    ids.n = 1000 * (index + 1)
    wl = labels_of(model)
    spans = [sp for lst in model.span_list.values() for sp in lst if sp.size and sp.kind == "code"]
    padtoks = {t.id for _, u in model.units() for t in u.toks if t.origin == "pad"}
    spans = [sp for sp in spans if not (set(sp.tok_ids) & padtoks)]
    if not spans:
        return None
    tpre = f"s{index + 1}q"
    lines = [{"marker": True}, {"label": tpre + "0", "temp": True}, {"v": "nop"}]
    if rng.random() < 0.7:
        lines.append({"v": "jcc", "t": tpre + "0", "ttemp": True})
    if rng.random() < 0.5:
        lines.append({"label": tpre + "1", "temp": True})
        lines.append({"v": "nop"})
        lines.insert(1, {"v": "jcc", "t": tpre + "1", "ttemp": True})
    if wl["all"] and params["_isa"] == "x64" and rng.random() < 0.6:
        lines.append({"v": "lea", "t": rng.choice(wl["all"])})
    if wl["externs"] and rng.random() < 0.4:
        lines.append({"v": "call", "t": rng.choice(wl["externs"])})
        lines.append({"v": "nop"})
    if rng.random() < 0.25:
        # a temporary name defined by assignment instead of a label ({T} is
        # the temporary-label prefix of the insertion context)
        lines.insert(rng.randrange(1, len(lines) + 1), {"raw": ".set {T}%sv, %d" % (tpre, rng.randint(1, 99))})
    patch = {"lines": lines}
    n = rng.randint(1, 8)
    ops = []
    places = []
    for sp in spans:
        for off, tid in sorted(sp.offsets.items()):
            places.append(tid)
    rng.shuffle(places)
    for tid in places[:n]:
        ops.append({"k": "ins", "at": tid, "side": "before", "patch": copy.deepcopy(patch)})
    if params.get("insfn_p", 0.1) and rng.random() < 0.35:
        # ... and as the body of several inserted functions
        for k in range(rng.randint(2, 3)):
            body = copy.deepcopy(patch)
            body["lines"] = [l for l in body["lines"] if not l.get("marker")] + [{"v": "ret"}]
            ops.insert(rng.randrange(len(ops) + 1), {"k": "insfn", "name": f"nf{index}_{k}", "patch": body})
    sd = {"ops": ops, "reg_order": list(range(len(ops)))}
    r = rng.random()
    if r < 0.2 and ops:
        sd["faults"] = {"callback": {str(rng.randint(1, len(ops))): rng.choice(["undef", "redef"])}}
    return sd


def _zero_history_session(rng, model):
    """Sessions biased towards the states around kept zero-sized blocks (a
    two-step conjunction that uniform sampling reaches only every ~10^5
    runs): (1) delete - without proxy - a code block that is a branch/call
    target and is followed by data or by nothing, so that it is kept as a
    zero-sized block; (2) once such a block exists, delete the block in front
    of it."""
    targets = {t.target for _, u in model.units() for t in u.toks if t.kind == "insn" and t.ikind in ("jmp", "jcc", "call") and t.target}
    labels_at = {}
    for _, u in model.units():
        for t in u.toks:
            if t.kind == "label" and t.att is not None and not t.at_end:
                labels_at.setdefault(t.att.key, set()).add(t.name)
    zero_next = []
    cands = []
    for lst in model.span_list.values():
        for i, sp in enumerate(lst):
            nxt = lst[i + 1] if i + 1 < len(lst) else None
            if sp.kind != "code" or not sp.size or not sp.tok_ids:
                continue
            if nxt is not None and nxt.kind == "code" and nxt.size == 0:
                zero_next.append(sp)
            if (nxt is None or nxt.kind == "data") and labels_at.get(sp.key, set()) & targets:
                cands.append(sp)
    pick = None
    if zero_next and rng.random() < 0.7:
        pick = rng.choice(zero_next)
    elif cands:
        pick = rng.choice(cands)
    if pick is None:
        return None
    return {"ops": [{"k": "delblock", "tok": pick.tok_ids[0], "proxy": False}], "reg_order": [0]}


def _gen_session(rng, model, params, index):
    """Generate one session's ops against the current spans of the model."""
    if params.get("zero_hist_p") and rng.random() < params["zero_hist_p"]:
        sd = _zero_history_session(rng, model)
        if sd is not None:
            return sd
    if rng.random() < params.get("same_patch_p", 0.0):
        sd = gen_same_patch_session(rng, model, params, index)
        if sd is not None:
            return sd
    if rng.random() < params.get("scope_session_p", 0.0):
        sd = gen_scope_session(rng, model, params, index)
        if sd is not None:
            return sd
    ids = IdGen()
    ids.n = 1000 * (index + 1)
    wl = labels_of(model)
    if params.get("no_temp_refs"):
        # (C11: the suffix of a temporary label an earlier session left
        # behind depends on the order in which blocks were visited, i.e. on
        # addresses, i.e. on the layout finding F03; a patch that spells such
        # a name out would turn that into an abort in one schedule)
        import re as _re

        for k in ("code", "data", "entries", "all"):
            wl[k] = [n for n in wl[k] if not _re.search(r"_\d+$", n) or not _re.match(r"^(\.L|L|\$L)s\d", n)]
    ops = []
    # a zero-sized block kept by an earlier deletion shares its position with
    # the block that follows it; edits at that block are left alone (which
    # of the two an insertion at offset 0 follows is not specified)
    zero_at = {(id(sp.unit), sp.start) for lst in model.span_list.values() for sp in lst if sp.size == 0}
    spans = [sp for lst in model.span_list.values() for sp in lst if sp.size > 0 and (id(sp.unit), sp.start) not in zero_at]
    # alignment padding created by the library is left alone (it is not
    # part of the program text the properties speak about)
    padtoks = {t.id for _, u in model.units() for t in u.toks if t.origin == "pad"}
    spans = [sp for sp in spans if not (set(sp.tok_ids) & padtoks)]
    if not spans or rng.random() < params.get("empty_session_p", 0.05):
        return {"ops": [], "reg_order": []}
    if rng.random() < params.get("extern_p", 0.0):
        # get_or_insert_extern_symbol: a new external symbol (proxy, symbol
        # tables, library list) or, for a name the module already has, that
        # very symbol; the session's patches may call it
        for k in range(rng.choice([1, 1, 2])):
            have = wl["externs"] + wl["all"] + (wl.get("abs") or [])
            if have and rng.random() < 0.35:
                # (a name the module already has - as an import, as a label
                # of its own, or as an absolute symbol: that symbol is handed
                # out and nothing is created)
                nm = rng.choice(have)
            else:
                nm = f"nx{index}_{k}"
            ops.append({"k": "extern", "name": nm, "lib": rng.choice(["libx.so", "liby.so.1", "x.dll"]), "preload": rng.random() < 0.3, "libpath": rng.random() < 0.3})
            if nm not in have:
                wl["externs"] = wl["externs"] + [nm]
    if rng.random() < params.get("insfn_p", 0.08) and params.get("_fmt") and ".text" in model.sections:
        for k in range(rng.choice([1, 1, 2])):
            nm = f"nf{index}_{k}"
            body = gen_patch(rng, model, params, wl, ids, allow_cf=False)
            body["lines"] = [l for l in body["lines"] if "label" not in l and "raw" not in l] or [{"v": "nop"}]
            if wl["entries"] and rng.random() < 0.4:
                body["lines"].append({"v": "call", "t": rng.choice(wl["entries"])})
            body["lines"].append({"v": "ret"})
            body.pop("constraints", None)  # function patches take none
            ops.append({"k": "insfn", "name": nm, "patch": body})
            wl["entries"] = wl["entries"] + [nm]
    nspans = min(len(spans), rng.choices([1, 2, 3, 4, 6], weights=[30, 30, 20, 10, 10])[0])
    # bias: neighbouring blocks
    start = rng.randrange(len(spans))
    if rng.random() < 0.6:
        chosen = [spans[(start + i) % len(spans)] for i in range(nspans)]
    else:
        chosen = rng.sample(spans, nspans)
    seen = set()
    max_ops = params.get("max_ops", 12)
    for sp in chosen:
        if sp.key in seen or len(ops) >= max_ops:
            continue
        seen.add(sp.key)
        toks = [(off, tid) for off, tid in sorted(sp.offsets.items())]
        sizes = {}
        for off, tid in toks:
            loc = model.find(tid)
            sizes[off] = len(loc[1].toks[loc[2]].b)
        in_data = sp.kind == "data"
        r = rng.random()
        if r < params.get("delblock_p", 0.15):
            proxy = rng.random() < 0.3
            nfunc = sum(1 for s2 in model.span_list[sp.sect] if s2.func == sp.func and s2.size) if sp.func else 0
            if proxy and sp.func and nfunc > 1:
                # deleting part of a function with retarget_to_proxy leaves
                # an orphaned body: use delete_function for the whole of it
                zs = any(s2.func == sp.func and s2.size == 0 for lst in model.span_list.values() for s2 in lst)
                if not zs and rng.random() < 0.6 and not any(o["k"] == "delfn" and o["func"] == sp.func for o in ops):
                    for s2 in model.span_list[sp.sect]:
                        if s2.func == sp.func:
                            seen.add(s2.key)
                    ops[:] = [o for o in ops if _op_func(model, o) != sp.func]
                    ops.append({"k": "delfn", "func": sp.func})
                    continue
                proxy = False
            ops.append({"k": "delblock", "tok": toks[0][1], "proxy": proxy})
            # (a proxy deletion stays alone on its block: what 'the labels of
            # the deleted block' are is ambiguous once a patch precedes it)
            continue
        # walk the block left to right, choosing edits at increasing offsets
        i = 0
        cnt = 0
        last_deleted = False
        while i <= len(toks) and len(ops) < max_ops and cnt < 4:
            r = rng.random()
            if i == len(toks):
                # nothing may follow a deletion that reaches the block end
                # (it may delete the whole remaining block)
                if r < 0.35 and not last_deleted:
                    ops.append({"k": "ins", "at": toks[-1][1], "side": "after", "patch": gen_patch(rng, model, params, wl, ids, in_data=in_data)})
                    cnt += 1
                break
            if r < 0.22:
                for _ in range(rng.choices([1, 2, 3], weights=[75, 20, 5])[0]):
                    ops.append({"k": "ins", "at": toks[i][1], "side": "before", "patch": gen_patch(rng, model, params, wl, ids, in_data=in_data)})
                    cnt += 1
                if rng.random() < 0.5:
                    i += 1
            elif r < 0.34:
                j = min(len(toks) - 1, i + rng.choices([0, 1, 2], weights=[60, 30, 10])[0])
                if not (i == 0 and j == len(toks) - 1):
                    ops.append({"k": "del", "from": toks[i][1], "to": toks[j][1]})
                    cnt += 1
                    if j == len(toks) - 1:
                        last_deleted = True
                i = j + 1
            elif r < 0.44:
                j = min(len(toks) - 1, i + rng.choices([0, 1], weights=[70, 30])[0])
                if in_data and rng.random() < 0.5:
                    patch = {"bytes": bytes(rng.getrandbits(8) for _ in range(rng.randint(1, 5))).hex()}
                else:
                    patch = gen_patch(rng, model, params, wl, ids, in_data=in_data)
                ops.append({"k": "rep", "from": toks[i][1], "to": toks[j][1], "patch": patch})
                cnt += 1
                i = j + 1
            else:
                i += 1
    hint = getattr(model, "align_hint", None) or {}
    if hint and params.get("patch_align_p") and ops and rng.random() < 0.5:
        # a patch that starts with an alignment directive of its own, put at
        # the very start of a block that has a (stricter) requirement itself:
        # both requirements then apply to the same position and the stricter
        # one must survive
        cands = [sp for sp in spans if sp.key not in seen and sp.kind == "code" and hint.get(sp.key, 1) > 2 and sp.offsets]
        if cands:
            sp = rng.choice(cands)
            n_al = rng.choice([a for a in (2, 4, 8) if a < hint[sp.key]])
            patch = gen_patch(rng, model, params, wl, ids, allow_cf=False)
            patch["lines"] = [{"raw": f".align {n_al}"}] + [l for l in patch["lines"] if not ("raw" in l and l["raw"].startswith(".align")) and "label" not in l]
            if not any("raw" not in l for l in patch["lines"]):
                patch["lines"].append({"v": "nop"})
            ops.append({"k": "ins", "at": sorted(sp.offsets.items())[0][1], "side": "before", "patch": patch})
            seen.add(sp.key)
    if params.get("retarget_p") and rng.random() < params["retarget_p"]:
        rts = gen_retargets(rng, model, wl)
        ops.extend(rts)
        if params.get("retarget_delete_p") and rng.random() < params["retarget_delete_p"]:
            # ... and the old symbol is deleted in the same rewrite: every
            # use was retargeted, so the deletion succeeds without force and
            # the expressions keep referring to the new symbol
            targets = {o["b"] for o in rts}
            for o in rts:
                if o["a"] not in targets and rng.random() < 0.6:
                    ops.append({"k": "delsym", "name": o["a"], "force": rng.random() < 0.5})
    if params.get("delsym_p") and rng.random() < params["delsym_p"]:
        ops.extend(gen_delsyms(rng, model, wl, ops))
    if params.get("c09"):
        # batch vs one-at-a-time is only defined for modifications at
        # distinct places (same-offset order is a registration-order matter)
        from . import driver

        seen_loc = set()
        keep = []
        for o in ops:
            if o["k"] in ("insfn", "reg", "retarget", "delsym", "extern"):
                continue
            try:
                exp = driver.expand_op(model, o)
            except Exception:
                continue
            locs = set()
            for key, off, length, _ in exp:
                locs.add((key, off))
                locs.add((key, off + length))
            if locs & seen_loc:
                continue
            seen_loc |= locs
            keep.append(o)
        ops[:] = keep
    _avoid_ambiguous(model, ops)
    if any(o["k"] in ("del", "delblock", "rep", "delfn") for o in ops):
        # deleting code may drop the directives that define the CFA; a
        # patch's own (relative) CFI is only meaningful when nothing is deleted
        for o in ops:
            p = o.get("patch")
            if p and "lines" in p:
                p["lines"] = [l for l in p["lines"] if not ("raw" in l and l["raw"].startswith(".cfi"))] or [{"v": "nop"}]
    order = list(range(len(ops)))
    sd = {"ops": ops, "reg_order": order}
    npatch = sum(1 for o in ops if o["k"] in ("ins", "rep") and "lines" in (o.get("patch") or {}))
    if npatch and rng.random() < params.get("decline_p", 0.0):
        # one of the patches declines (get_asm returns None): nothing is
        # inserted and, for a replacement, nothing is removed; everything
        # else of the session lands where it was asked to
        sd["faults"] = {"callback": {str(rng.randint(1, npatch)): "none"}}
    return sd


def gen_retargets(rng, model, wl):
    """retarget_symbol_uses(A, B): A/B internal or external in every
    combination, chains A->B, B->C, several at once.  Avoided by
    construction: symbols that occur in sym-sym expressions; a control-flow
    use retargeted to a data label is generated on purpose only through
    'bad' requests (refusal expected)."""
    in_diff = set()
    used_cf = set()
    used_any = set()
    for _, u in model.units():
        for t in u.toks:
            for rel, size, ed in t.sx:
                if ed[0] == "diff":
                    in_diff.update([ed[1], ed[2]])
                else:
                    used_any.add(ed[1])
                    if t.kind == "insn" and t.ikind in ("jmp", "jcc", "call"):
                        used_cf.add(ed[1])
    code = [n for n in wl["code"] if n not in in_diff]
    data = [n for n in wl["data"] if n not in in_diff]
    ext = [n for n in wl["externs"] if n not in in_diff]
    ops = []
    taken = set()
    for _ in range(rng.choice([1, 1, 2, 3])):
        pool_a = [n for n in code + data + ext if n not in taken]
        # prefer symbols that are actually used
        used = [n for n in pool_a if n in used_any]
        if used and rng.random() < 0.8:
            pool_a = used
        if not pool_a:
            break
        a = rng.choice(pool_a)
        if a in used_cf or a in code:
            pool_b = code + ext
        else:
            pool_b = code + data + ext
        pool_b = [n for n in pool_b if n != a]
        if not pool_b:
            break
        b = rng.choice(pool_b)
        taken.add(a)
        ops.append({"k": "retarget", "a": a, "b": b})
    return ops


def gen_delsyms(rng, model, wl, ops):
    """delete_symbol requests: any number at once, any force flags, the
    same symbol possibly twice; not for symbols that other requests of the
    session (retargets, patches) mention."""
    busy = set()
    for o in ops:
        if o["k"] == "retarget":
            busy.update([o["a"], o["b"]])
        for l in (o.get("patch") or {}).get("lines") or []:
            if l.get("t"):
                busy.add(l["t"])
            if "raw" in l:
                busy.update(w for w in l["raw"].replace(",", " ").split())
    names = [n for n in wl["code"] + wl["data"] + wl["externs"] if n not in busy]
    out = []
    if not names:
        return out
    for n in rng.sample(names, min(len(names), rng.choice([1, 1, 2, 3]))):
        force = rng.random() < 0.75
        out.append({"k": "delsym", "name": n, "force": force})
        if rng.random() < 0.15:
            out.append({"k": "delsym", "name": n, "force": rng.random() < 0.5})
    return out


def _op_func(model, op):
    from . import driver

    try:
        if op["k"] in ("insfn", "reg", "retarget", "delsym", "extern"):
            return None
        if op["k"] == "delfn":
            return op["func"]
        key, _, _ = driver.resolve_op(model, op)
        return model.spans[key].func
    except Exception:
        return None


def _avoid_ambiguous(model, ops):
    """Steer away from combinations whose listing reading is ambiguous
    (DESIGN 9a): a trailing patch label at the end of a block when something
    else is inserted at the same point, and a block deleted with
    retarget_to_proxy right after a block whose end is edited in the same
    session."""
    from . import driver

    loc = {}
    for oi, op in enumerate(ops):
        if op["k"] in ("delfn", "insfn", "reg", "retarget", "delsym", "extern"):
            continue
        try:
            key, off, length = driver.resolve_op(model, op)
        except Exception:
            continue
        loc[oi] = (key, off, length)
    # nothing is inserted at the end of a block whose successor was deleted
    # with retarget_to_proxy earlier (its fallthrough / return site is the
    # proxy; what code placed in between means for them is not specified)
    tokmap = {t.id: t for _, u in model.units() for t in u.toks}
    for oi, (key, off, length) in loc.items():
        sp = model.spans[key]
        lastt = tokmap.get(sp.tok_ids[-1]) if sp.tok_ids else None
        if ops[oi]["k"] == "ins" and length == 0 and lastt is not None and lastt.kind == "insn" and lastt.ikind in ("plain", "jcc"):
            # (only a return site is in question: after an ordinary or a
            # conditional instruction the inserted code is simply what the
            # block falls through to, and the patch's end takes over the
            # fallthrough to the proxy)
            continue
        if off + length == sp.size and sp.end_mark is not None:
            toks_u = sp.unit.toks
            i = next((k for k, t in enumerate(toks_u) if t is sp.end_mark), None)
            if i is not None:
                j = i + 1
                while j < len(toks_u) and not toks_u[j].is_bytes():
                    if toks_u[j].kind == "pmark":
                        ops[oi]["_drop"] = True
                        break
                    j += 1
    # end-of-block edit points
    ends = {}
    for oi, (key, off, length) in loc.items():
        sp = model.spans[key]
        if off + length == sp.size and (ops[oi]["k"] in ("ins", "rep", "del") or (ops[oi]["k"] == "delblock" and not ops[oi].get("proxy"))):
            # (a block deleted as a whole hands its labels to the next block:
            # the same boundary question when that block is proxied)
            ends.setdefault(key, []).append(oi)
    for key, lst in ends.items():
        sp = model.spans[key]
        lstlist = model.span_list[sp.sect]
        nxt = lstlist[sp.order + 1] if sp.order + 1 < len(lstlist) else None
        # (blocks deleted as a whole in between hand their labels on)
        gone = {k2 for oi2, (k2, o2, l2) in loc.items() if ops[oi2]["k"] in ("delblock", "del") and not ops[oi2].get("proxy") and o2 == 0 and l2 == model.spans[k2].size}
        while nxt is not None and nxt.key in gone:
            nxt = lstlist[nxt.order + 1] if nxt.order + 1 < len(lstlist) else None
        nxt_proxy = nxt is not None and (
            any(ops[oi]["k"] == "delblock" and ops[oi].get("proxy") and loc.get(oi, (None,))[0] == nxt.key for oi in loc)
            or (nxt.func is not None and any(o["k"] == "delfn" and o["func"] == nxt.func for o in ops))
        )
        for oi in lst:
            p = ops[oi].get("patch")
            if p and "lines" in p and (len(lst) > 1 or nxt_proxy):
                while p["lines"] and "label" in p["lines"][-1]:
                    p["lines"].pop()
                if not p["lines"]:
                    p["lines"].append({"v": "nop"})
        if nxt_proxy:
            # no edits at the end of the predecessor of a proxied block
            for oi in lst:
                ops[oi]["_drop"] = True
    # a whole block deleted without retarget_to_proxy whose label is the
    # target of a call, when the label slides into another function: whether
    # that call now 'targets' the other function is not specified
    call_targets = {t.target for _, u in model.units() for t in u.toks if t.kind == "insn" and t.ikind == "call" and t.target}
    for o in ops:
        p = o.get("patch")
        if p and "lines" in p:
            call_targets |= {l.get("t") for l in p["lines"] if l.get("v") == "call" and l.get("t")}
    whole = {}
    deleted = {}
    for oi, (key, off, length) in loc.items():
        sp = model.spans[key]
        if ops[oi]["k"] in ("delblock", "del") and not ops[oi].get("proxy") and sp.kind == "code":
            deleted.setdefault(key, []).append((oi, length))
    for key, lst in deleted.items():
        sp = model.spans[key]
        if sum(l for _, l in lst) >= sp.size:
            # (several partial deletions may add up to the whole block)
            whole[max(oi for oi, _ in lst)] = sp
    for oi, sp in whole.items():
        chain = [s2 for s2 in whole.values() if s2.sect == sp.sect and s2.order <= sp.order]
        own = {t.name for _, u in model.units() for t in u.toks if t.kind == "label" and any(t.att is s2 for s2 in chain)}
        lst2 = model.span_list[sp.sect]
        nxt = lst2[sp.order + 1] if sp.order + 1 < len(lst2) else None
        # (a kept zero-sized block is not where the label comes to rest: it
        # designates the next byte, which may belong to another function)
        while nxt is not None and nxt.size == 0:
            nxt = lst2[nxt.order + 1] if nxt.order + 1 < len(lst2) else None
        if own & call_targets and (nxt is None or nxt.func != sp.func):
            ops[oi]["_drop"] = True
    # a block deleted with retarget_to_proxy that calls itself: whether the
    # function still 'has a caller' afterwards is not specified
    toks = {t.id: t for _, u in model.units() for t in u.toks}
    for oi, (key, off, length) in loc.items():
        if ops[oi]["k"] == "delblock" and ops[oi].get("proxy"):
            sp = model.spans[key]
            own = {t.name for _, u in model.units() for t in u.toks if t.kind == "label" and t.att is sp}
            if any(toks[tid].ikind == "call" and toks[tid].target in own for tid in sp.tok_ids if tid in toks):
                ops[oi]["_drop"] = True
    ops[:] = [op for op in ops if not op.pop("_drop", False)]
