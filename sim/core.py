"""Core shared by all engines: seeds, seams, verdicts, digests."""

import hashlib
import json
import os
import random
import sys
import uuid as _uuid_mod

VERIF_ROOT = os.path.dirname(os.path.dirname(os.path.abspath(__file__)))
OUT_DIR = os.environ.get("VERIF_OUT_DIR") or os.path.join(VERIF_ROOT, "out")
REPLAY_DIR = os.path.join(OUT_DIR, "replays")
# (VERIF_EVIDENCE_DIR: runs against a mutated / seeded copy of the library
# must not overwrite the evidence of the real tree)
EVIDENCE_DIR = os.environ.get("VERIF_EVIDENCE_DIR") or os.path.join(VERIF_ROOT, "evidence")
FINDINGS_FILE = os.path.join(VERIF_ROOT, "known_findings.json")
PYTHON = "/venv/bin/python"
HASHSEED_CLASSES = 4

# --------------------------------------------------------------------------
# seeds


def derive(*parts) -> int:
    """Derive a 64-bit integer from a tuple of parts (stable across runs,
    interpreters and PYTHONHASHSEED)."""
    h = hashlib.sha256(
        json.dumps(parts, sort_keys=True, default=str).encode()
    ).digest()
    return int.from_bytes(h[:8], "big")


class Streams:
    """Named PRNG sub-streams of one run seed, so that adding a draw to one
    stream does not shift the others."""

    def __init__(self, seed: int):
        self.seed = seed
        self._streams = {}

    def get(self, name: str) -> random.Random:
        r = self._streams.get(name)
        if r is None:
            r = self._streams[name] = random.Random(derive(self.seed, name))
        return r


def digest(obj) -> str:
    return hashlib.sha256(
        json.dumps(obj, sort_keys=True, default=str).encode()
    ).hexdigest()[:16]


# --------------------------------------------------------------------------
# seams: UUID stream and node hashing

_state = {"rng": random.Random(0), "salt": 0, "installed": False, "draws": 0}
_MASK = (1 << 128) - 1
_MULT = 0x9E3779B97F4A7C15F39CC0605CEDC835


def _sim_uuid4():
    _state["draws"] += 1
    return _uuid_mod.UUID(int=_state["rng"].getrandbits(128), version=4)


def _node_hash(self):
    return hash(((self.uuid.int ^ _state["salt"]) * _MULT) & _MASK)


def install_seams():
    """Install the UUID and node-hash seams.  Must be called before any
    gtirb node is created.  Identity equality of nodes is untouched, so the
    semantics of every container are unchanged; only iteration order of
    hashed containers becomes a function of (uuid stream, salt,
    PYTHONHASHSEED) instead of memory addresses."""
    if _state["installed"]:
        return
    import gtirb.node

    _uuid_mod.uuid4 = _sim_uuid4
    gtirb.node.uuid4 = _sim_uuid4
    gtirb.node.Node.__hash__ = _node_hash
    # the library's module-level loggers (warnings about section flags, ...)
    # must not write to the worker's stderr / the protocol stream
    import logging

    lg = logging.getLogger("gtirb_rewriting")
    lg.addHandler(logging.NullHandler())
    lg.propagate = False
    _state["installed"] = True


def reseed(uuid_seed: int, salt: int):
    """Start a new run: fresh UUID stream and node-hash salt."""
    _state["rng"] = random.Random(uuid_seed)
    _state["salt"] = salt & _MASK
    _state["draws"] = 0


def uuid_draws() -> int:
    return _state["draws"]


def use_repo_override():
    """VERIF_REPO=<dir> puts <dir>/src first on sys.path (used to run the
    checks against a scratch copy of the repository: mutants, seeded
    changes).  Without it the editable install of /repo is used, i.e. the
    current working tree."""
    d = os.environ.get("VERIF_REPO")
    if d:
        src = os.path.join(d, "src")
        if not os.path.isdir(src):
            raise SystemExit(f"VERIF_REPO={d}: no src directory")
        sys.path.insert(0, src)


def hashseed_of(run_seed: int) -> int:
    return derive(run_seed, "hashseed") % HASHSEED_CLASSES


# --------------------------------------------------------------------------
# verdicts


class Verdict:
    OK = "ok"
    VIOLATION = "violation"
    REJECTED = "rejected"
    DESYNC = "desync"
    HARNESS = "harness-error"


class Violation(Exception):
    """Raised by an oracle.  ``vclass`` is the violation class (DESIGN 9b),
    ``sig`` a dict of structural-cause tags used to match known findings,
    ``witness`` free-form detail (must be JSON-serializable)."""

    def __init__(self, prop, vclass, witness=None, sig=None):
        super().__init__(f"{prop}/{vclass}: {witness}")
        self.prop = prop
        self.vclass = vclass
        self.witness = witness
        self.sig = dict(sig or {})


class Rejected(Exception):
    """Scenario violated a stated precondition of the library."""


class Desync(Exception):
    """Model and implementation disagree on something another property
    owns; the rest of the history cannot be driven."""


class HarnessError(Exception):
    pass


def result_ok(stats=None, **kw):
    r = {"verdict": Verdict.OK, "stats": stats or {}}
    r.update(kw)
    return r


def result_violation(v: Violation, stats=None, **kw):
    r = {
        "verdict": Verdict.VIOLATION,
        "property": v.prop,
        "vclass": v.vclass,
        "sig": v.sig,
        "witness": v.witness,
        "stats": stats or {},
    }
    r.update(kw)
    return r
