"""Engine registry."""

import importlib

_ENGINES = {
    "rwsim": "sim.rw.engine",
    "ctsim": "sim.ctsim",
    "cfisim": "sim.cfisim",
    "asmsim": "sim.asmsim",
    "machsim": "sim.machsim",
}


def get(name):
    return importlib.import_module(_ENGINES[name])
