"""cfisim engine (property C15): the lazy CFI evaluator
``gtirb_rewriting.dwarf.cfi_eval.evaluate_cfi_directives`` against the value
semantics reference interpreter ``sim.cfi_ref``.

Simulated dimension: the evaluator is a generator that mutates and re-yields
ONE ProcedureState; the consumer (this engine) decides at which yields it
takes ``copy()``, which copies it mutates later, whether it keeps references,
where it abandons the generator and whether it evaluates again afterwards.
Faults: ill-formed events injected into the directive history.

Scenario (pure JSON):
  abi       key of cfi_ref.ABIS
  ref       reference options recorded at generation time ({"rel_offset": "dwarf"|"library"})
  blocks    [{"addr", "size"}]   one code block (own byte interval) each, created in list order
  pass      block indices handed to the evaluator, in that order (others are decoys)
  symbols   names of symbols that exist in the module
  history   [[block, offset, directive|None, [operands], sym, tag]]  sym: None|"name"|{"dangling": n};
            directive None = location with an empty directive list; tag = injected fault kind or None
  consumer  {"copy": [yield idx], "hold": [yield idx], "mutate": [{"at", "copy", "kind"}],
             "abandon": yield idx|None, "reeval": bool}
  gen       informational: {"avoid_known": bool, "expose": [knob]} (which known trigger the generator did not avoid)

Generator parameters: avoid_known (probability, default 0.8), rel_offset_semantics ("dwarf" | "library"),
abi (force one ABI), fault_bad_escape (also inject truncated escape payloads; off by default, see props assumptions).

Violation classes: state-diff (sig field), position-sequence, wrong-exception-type (sig exc, directive, and
kind = the expected ill-formed event or expected=no-error), missed-error, copy-aliasing, no-reset.  A sig may
carry cause=<known deviation> (see diagnose).
"""

import collections
import copy as _copy
import uuid

from . import cfi_ref, core

FIELDS = ["return_column", "personality", "lsda", "cfa", "registers", "initial_cfa", "initial_registers", "save_stack"]
MUT_KINDS = ["cur_reg_set", "cur_reg_clear", "cur_cfa", "init_reg_set", "init_cfa", "stack_push", "stack_pop", "stack_entry", "scalars", "all"]
ABI_WEIGHTS = [("x64-elf", 45), ("arm64-elf", 25), ("mips32-elf", 20), ("x64-pe", 5), ("ia32-pe", 5)]
# known finding: the library's default return column for these ABIs (toolchain: 30 / 31).  Only the generator's
# avoid knob looks at this table (it then pins the column with an explicit .cfi_return_column at the startproc
# location); the oracle never does.
LIB_DEFAULT_RA = {"arm64-elf": 32, "mips32-elf": 32}
FIXED_TRIGGERS = ["restore", "ra", "order"]
KNOWN = ["restore", "rel", "ra", "order"]  # generator knobs, one per known trigger


# --------------------------------------------------------------------------
# world


class World:
    pass


def build(scenario):
    import gtirb
    from gtirb_test_helpers import add_symbol, create_test_module

    from gtirb_rewriting._auxdata import NULL_UUID

    abi = cfi_ref.ABIS[scenario["abi"]]
    order = {"little": gtirb.Module.ByteOrder.Little, "big": gtirb.Module.ByteOrder.Big}[abi["order"]]
    _, m = create_test_module(getattr(gtirb.Module.FileFormat, abi["fmt"]), getattr(gtirb.Module.ISA, abi["isa"]), byte_order=order)
    sec = gtirb.Section(
        name=".text",
        flags={gtirb.Section.Flag.Readable, gtirb.Section.Flag.Executable, gtirb.Section.Flag.Loaded, gtirb.Section.Flag.Initialized},
    )
    sec.module = m
    w = World()
    w.module = m
    w.blocks = []
    for b in scenario["blocks"]:
        bi = gtirb.ByteInterval(address=b["addr"], size=b["size"], contents=b"\x00" * b["size"])
        bi.section = sec
        cb = gtirb.CodeBlock(offset=0, size=b["size"])
        cb.byte_interval = bi
        w.blocks.append(cb)
    w.symbols = {name: add_symbol(m, name) for name in scenario["symbols"]}
    table = {}
    for ev in scenario["history"]:
        key = (ev[0], ev[1])
        lst = table.setdefault(key, [])
        if ev[2] is None:
            continue
        sym = ev[4]
        if sym is None:
            s = NULL_UUID
        elif isinstance(sym, str):
            s = w.symbols[sym]
        else:
            s = uuid.UUID(int=0xDA6_0000_0000 + int(sym["dangling"]))
        lst.append((ev[2], list(ev[3]), s))
    data = m.aux_data["cfiDirectives"].data
    for (b, off), lst in table.items():
        data[gtirb.Offset(w.blocks[b], off)] = lst
    return w


# --------------------------------------------------------------------------
# normaliser for the library's state objects

_OPNAMES = {"OpPlusUConst": "plus_uconst", "OpDerefSize": "deref_size", "OpXDerefSize": "xderef_size"}


def norm_op(op):
    import dataclasses

    cn = type(op).__name__
    name = _OPNAMES.get(cn) or (cn[2:].lower() if cn.startswith("Op") else "?" + cn)
    try:
        vals = [getattr(op, f.name) for f in dataclasses.fields(op)]
    except TypeError:
        vals = ["?"]
    return [name] + vals


def norm_expr(e):
    try:
        return [norm_op(o) for o in e]
    except TypeError:
        return ["?" + type(e).__name__]


def norm_rule(r):
    cn = type(r).__name__
    if cn == "RegisterUndefined":
        return ["undefined"]
    if cn == "RegisterSameValue":
        return ["same_value"]
    if cn == "RegisterOffset":
        return ["offset", r.offset]
    if cn == "RegValOffset":
        return ["val_offset", r.offset]
    if cn == "RegisterInRegister":
        return ["register", r.register]
    if cn == "RegisterAtExpression":
        return ["expression", norm_expr(r.expression)]
    if cn == "RegisterIsExpression":
        return ["val_expression", norm_expr(r.expression)]
    return ["?" + cn]


def norm_cfa(c):
    if c is None:
        return None
    cn = type(c).__name__
    if cn == "CFARegisterOffset":
        return ["reg", c.register, c.offset]
    if cn == "CFAExpression":
        return ["expr", norm_expr(c.expression)]
    return ["?" + cn]


def norm_ptr(p):
    if p is None:
        return None
    sym = getattr(p, "symbol", None)
    name = getattr(sym, "name", None)
    return [int(p.encoding), name if isinstance(name, str) else "?" + type(sym).__name__]


def norm_row(row):
    regs = row.registers
    return {"cfa": norm_cfa(row.cfa), "registers": {str(k): norm_rule(regs[k]) for k in sorted(regs)}}


def norm_state(st):
    if st is None:
        return None
    cur, ini = norm_row(st.current), norm_row(st.initial)
    return {
        "return_column": st.return_column,
        "personality": norm_ptr(st.personality),
        "lsda": norm_ptr(st.lsda),
        "cfa": cur["cfa"],
        "registers": cur["registers"],
        "initial_cfa": ini["cfa"],
        "initial_registers": ini["registers"],
        "save_stack": [norm_row(r) for r in st.save_stack],
    }


def diff_field(exp, act):
    if (exp is None) != (act is None):
        return "in_procedure"
    if exp is None:
        return None
    for f in FIELDS:
        if exp[f] != act[f]:
            return f
    return None


# --------------------------------------------------------------------------
# consumer


def mutate_copy(cp, kind):
    from gtirb_rewriting.dwarf import cfi_eval as ce

    every = kind == "all"
    if every or kind == "cur_reg_set":
        for k in list(cp.current.registers):
            cp.current.registers[k] = ce.RegisterInRegister(4242)
        cp.current.registers[7777] = ce.RegisterUndefined()
    if every or kind == "cur_reg_clear":
        cp.current.registers.clear()
    if every or kind == "cur_cfa":
        cp.current.cfa = ce.CFARegisterOffset(99, 999)
    if every or kind == "init_reg_set":
        for k in list(cp.initial.registers):
            cp.initial.registers[k] = ce.RegisterInRegister(4243)
        cp.initial.registers[7778] = ce.RegisterSameValue()
    if every or kind == "init_cfa":
        cp.initial.cfa = ce.CFARegisterOffset(98, 998)
    if every or kind == "stack_entry":
        for row in cp.save_stack:
            row.registers[7779] = ce.RegisterUndefined()
            row.cfa = ce.CFARegisterOffset(97, 997)
    if every or kind == "stack_pop":
        if cp.save_stack:
            cp.save_stack.pop()
    if every or kind == "stack_push":
        cp.save_stack.append(ce.RowState(cfa=ce.CFARegisterOffset(96, 996)))
    if every or kind == "scalars":
        cp.return_column = 54321
        cp.personality = None
        cp.lsda = None


def _blamed_directive(exc):
    """(name, index in its location) of the directive the evaluator was
    processing when it raised (read-only look at the generator frame in the
    traceback)."""
    tb = exc.__traceback__
    name = idx = None
    while tb is not None:
        if tb.tb_frame.f_code.co_name == "evaluate_cfi_directives":
            loc = tb.tb_frame.f_locals
            name = loc.get("name")
            cur, lst = loc.get("directive"), loc.get("directives")
            if isinstance(lst, list):
                idx = next((i for i, d in enumerate(lst) if d is cur), None)
        tb = tb.tb_next
    return (name if isinstance(name, str) else None), idx


def _selfcheck(scenario, w, groups):
    """The module that was built must say what the scenario says (guards the
    builder; a mismatch is a harness error, never a violation)."""
    passed = [w.blocks[i] for i in scenario["pass"]]
    desc, hist = cfi_ref.history_from_table(w.module.aux_data["cfiDirectives"].data, passed)
    back = cfi_ref.group_history(desc, hist)

    def plain(gs, remap):
        return [([remap(loc[0]), loc[1]], [[e[2], list(e[3]), e[4] if not isinstance(e[4], dict) else "dangling"] for e in evs]) for loc, evs in gs]

    if plain(back, lambda b: scenario["pass"][b]) != plain(groups, lambda b: b):
        raise core.HarnessError("built module does not match the scenario")


class Outcome:
    """Result of driving the evaluator once."""

    def __init__(self):
        self.violation = None  # (vclass, sig, witness)
        self.step = None  # yield index of the violation
        self.kinds = []  # step-kind sequence (interleaving measure)
        self.stats = collections.Counter()
        self.mutated_before = False
        self.completed = 0  # yields that were checked and found equal to the reference


def drive(scenario, steps, groups, consumer, prop):
    """Build a fresh module, run the evaluator under ``consumer`` and compare
    every yield with ``steps``.  Returns an Outcome."""
    from gtirb_rewriting.dwarf.cfi_eval import evaluate_cfi_directives

    out = Outcome()
    w = build(scenario)
    _selfcheck(scenario, w, groups)
    gen = evaluate_cfi_directives(w.module, [w.blocks[i] for i in scenario["pass"]])
    consumer = consumer or {}
    copy_at = set(consumer.get("copy") or [])
    hold_at = set(consumer.get("hold") or [])
    muts = collections.defaultdict(list)
    for mu in consumer.get("mutate") or []:
        muts[mu["at"]].append(mu)
    abandon = consumer.get("abandon")
    copies, mutated, held = {}, set(), []

    def fail(vclass, sig, witness, k):
        out.violation = (vclass, sig, witness)
        out.step = k

    def group_names(k):
        return [ev[2] for ev in groups[k][1]] if k < len(groups) else []

    k = 0
    while out.violation is None:
        exp = steps[k] if k < len(steps) else None
        if abandon is not None and abandon == k:
            gen.close()
            out.kinds.append("abandon")
            out.stats["abandon"] += 1
            break
        if k < len(groups):
            out.kinds.extend(n[5:] if n else "empty" for n in group_names(k))
        try:
            item = next(gen)
        except StopIteration:
            out.kinds.append("end")
            if exp is not None and "error" in exp:
                e = exp["error"]
                fail("missed-error", {"kind": e["kind"], "directive": e["directive"], "how": "ended"}, {"step": k, "loc": exp["loc"], "expected": e}, k)
            elif exp is not None:
                fail("position-sequence", {"how": "too-few-yields"}, {"step": k, "expected_loc": exp["loc"], "yields": k, "expected_yields": len(steps)}, k)
            break
        except Exception as e:  # noqa: BLE001 - the exception type IS the observation
            tname = type(e).__name__
            blamed, bidx = _blamed_directive(e)
            out.kinds.append("raise")
            wit = {"step": k, "exception": tname, "message": str(e)[:200], "directive": blamed, "index": bidx, "group": group_names(k)}
            err = exp["error"] if exp is not None and "error" in exp else None
            if err is not None and bidx is not None and bidx < err["index"]:
                err = None  # raised by a directive BEFORE the one the reference blames: not the expected error
                wit["expected_later"] = exp["error"]
            if err is not None:
                wit["expected"] = err
                if tname in err["classes"]:
                    out.stats["fault." + err["kind"]] += 1
                else:
                    fail("wrong-exception-type", {"exc": tname, "directive": err["directive"], "kind": err["kind"]}, wit, k)
            else:
                wit["expected"] = "no error" if exp is not None else "end of evaluation"
                fail("wrong-exception-type", {"exc": tname, "directive": blamed, "expected": "no-error"}, wit, k)
            break
        out.stats["yields"] += 1
        out.kinds.append("yield")
        if exp is None:
            fail("position-sequence", {"how": "too-many-yields"}, {"step": k, "expected_yields": len(steps)}, k)
            break
        if "error" in exp:
            e = exp["error"]
            fail("missed-error", {"kind": e["kind"], "directive": e["directive"], "how": "yielded"}, {"step": k, "loc": exp["loc"], "expected": e, "group": group_names(k)}, k)
            break
        ok_shape = isinstance(item, tuple) and len(item) == 3
        block, off, st = item if ok_shape else (None, None, None)
        bidx = next((i for i, b in enumerate(w.blocks) if b is block), None)
        if not ok_shape or [bidx, off] != exp["loc"]:
            fail("position-sequence", {"how": "wrong-location"}, {"step": k, "expected_loc": exp["loc"], "actual_loc": [bidx, off]}, k)
            break
        act = norm_state(st)
        f = diff_field(exp["state"], act)
        if f is not None:
            wit = {"step": k, "loc": exp["loc"], "field": f, "group": group_names(k), "procedure": exp["proc"]}
            if f == "in_procedure":
                wit.update(expected=exp["state"] is not None, actual=act is not None)
            else:
                wit.update(expected=exp["state"][f], actual=act[f])
            out.mutated_before = bool(mutated)
            fail("state-diff", {"field": f}, wit, k)
            break
        # consumer actions
        if k in copy_at and st is not None:
            cp = _copy.copy(st)
            out.kinds.append("copy")
            out.stats["copies"] += 1
            fc = None if cp is not st else "identity"
            fc = fc or diff_field(exp["state"], norm_state(cp))
            if fc is not None:
                fail("copy-aliasing", {"field": fc, "when": "at-copy"}, {"step": k, "field": fc}, k)
                break
            copies[k] = cp
        if k in hold_at and st is not None:
            held.append(st)
            out.kinds.append("hold")
        for mu in muts.get(k, ()):
            cp = copies.get(mu["copy"])
            if cp is not None:
                mutate_copy(cp, mu["kind"])
                mutated.add(mu["copy"])
                out.kinds.append("mutate")
                out.stats["mutations"] += 1
        k += 1
        out.completed = k
    # copies taken earlier must still describe THEIR step
    if out.violation is None or out.violation[0] in ("wrong-exception-type", "missed-error"):
        for c in sorted(copies):
            if c in mutated:
                continue
            f = diff_field(steps[c]["state"], norm_state(copies[c]))
            out.stats["copies_checked"] += 1
            if f is not None and out.violation is None:
                act = norm_state(copies[c])
                fail("copy-aliasing", {"field": f, "when": "after-later-evaluation"}, {"copy_of_step": c, "checked_after_step": k, "field": f, "expected": steps[c]["state"][f], "actual": act[f]}, c)
    out.stats["held"] += len(held)
    if len(held) > 1 and any(h is held[0] for h in held[1:]):
        out.stats["probe.same_object_reyielded"] += 1
    return out


# --------------------------------------------------------------------------
# execution and diagnosis


def _expected(scenario, opts=None):
    abi = cfi_ref.ABIS[scenario["abi"]]
    o = dict(scenario.get("ref") or {})
    o.update(opts or {})
    groups = cfi_ref.group_history(scenario["blocks"], scenario["history"], scenario["pass"])
    return groups, cfi_ref.interpret(groups, abi, o)


def _isolate_procedure(scenario, groups, proc):
    """Scenario without the events that precede the ``proc``-th procedure."""
    abi = cfi_ref.ABIS[scenario["abi"]]
    m = cfi_ref.Machine(abi, scenario.get("ref"))
    drop = []
    for _, events in groups:
        for ev in events:
            if ev[2] == ".cfi_startproc" and m.s is None and m.nproc == proc - 1:
                sc = dict(scenario)
                ids = {id(e) for e in drop}
                sc["history"] = [e for e in scenario["history"] if id(e) not in ids]
                return sc
            if m.step(ev) is not None:
                return None
            drop.append(ev)
        m.end_group()
    return None


def _restore_without_rule(scenario, groups, k, index=None):
    """Does location k contain a .cfi_restore of a register that has neither
    a current nor an initial rule (per the reference)?"""
    abi = cfi_ref.ABIS[scenario["abi"]]
    m = cfi_ref.Machine(abi, scenario.get("ref"))
    for gi, (_, events) in enumerate(groups):
        for ei, ev in enumerate(events):
            if gi == k and index in (None, ei) and ev[2] == ".cfi_restore" and m.s is not None and ev[3][0] not in m.s.regs and ev[3][0] not in m.s.init_regs:
                return True
            if m.step(ev) is not None:
                return False
        m.end_group()
        if gi == k:
            break
    return False


def _explains(vclass, sig, wit, k, s2):
    """Would the reference variant ``s2`` have predicted what was observed at step k?"""
    if k is None or k >= len(s2):
        return False
    st = s2[k]
    if vclass == "state-diff":
        f = sig["field"]
        if f == "in_procedure":
            return "state" in st and (st["state"] is not None) == wit["actual"]
        return st.get("state") is not None and st["state"][f] == wit["actual"]
    if vclass == "wrong-exception-type":
        return "error" in st and wit["exception"] in st["error"]["classes"] and (wit.get("index") is None or wit["index"] == st["error"]["index"])
    if vclass == "missed-error":
        return "state" in st
    return False


def diagnose(prop, scenario, groups, steps, out):
    """Refine class and signature of a violation with structural-cause tags.
    Never turns a violation into a pass."""
    vclass, sig, wit = out.violation
    sig = dict(sig)
    k = out.step
    if vclass == "state-diff" and out.mutated_before:
        # would the diff exist without the consumer's mutations of its own copies?
        again = drive(scenario, steps, groups, None, prop)
        if again.violation is None or again.step > k:
            return "copy-aliasing", {"field": sig["field"], "when": "mutated-copy-leaks"}, wit
    if vclass == "wrong-exception-type" and sig.get("exc") == "KeyError" and sig.get("directive") == ".cfi_restore" and sig.get("expected") == "no-error":
        if _restore_without_rule(scenario, groups, k, wit.get("index")):
            sig["cause"] = "no-initial-rule"
            return vclass, sig, wit
    if vclass == "state-diff" and wit.get("procedure", 0) >= 2:
        # "reset between procedures" <=> a procedure's states do not depend on what preceded its .cfi_startproc
        iso = _isolate_procedure(scenario, groups, wit["procedure"])
        if iso is not None:
            g2, s2 = _expected(iso)
            again = drive(iso, s2, g2, None, prop)
            j = next((i for i, st in enumerate(s2) if st["loc"] == wit.get("loc")), None)
            if again.violation is None or (j is not None and again.step is not None and again.step > j):
                return "no-reset", {"field": sig["field"]}, wit
    # reference variants that model a known deviation of the library: only used to NAME the cause
    abi = cfi_ref.ABIS[scenario["abi"]]
    variants = []
    if (scenario.get("ref") or {}).get("rel_offset", "dwarf") == "dwarf":
        variants.append(("rel-offset-semantics", {"rel_offset": "library"}))
    variants.append(("escape-byteorder", {"order": "little" if abi["order"] == "big" else "big"}))
    if vclass == "state-diff" and sig.get("field") == "return_column" and isinstance(wit.get("actual"), int):
        variants.append(("abi-default-return-column", {"ra": wit["actual"]}))
    if vclass in ("state-diff", "wrong-exception-type", "missed-error") and sig.get("evaluation") != "second":
        import itertools

        for n in range(1, len(variants) + 1):
            for combo in itertools.combinations(variants, n):
                opts = {}
                for _, o in combo:
                    opts.update(o)
                _, s2 = _expected(scenario, opts)
                if _explains(vclass, sig, wit, k, s2):
                    sig["cause"] = "+".join(c for c, _ in combo)
                    if any(c != "rel-offset-semantics" for c, _ in combo):
                        sig["abi"] = scenario["abi"]
                    return vclass, sig, wit
    return vclass, sig, wit


def execute(prop, scenario, params):
    sigma = scenario["sigma"]
    core.reseed(sigma["uuid_seed"], sigma["salt"])
    groups, steps = _expected(scenario)
    stats = collections.Counter()
    meta = {
        "sdig": core.digest({k: v for k, v in scenario.items() if k not in ("sigma", "seed")}),
        "sigma": core.digest(sigma),
        "nontrivial": False,
        "interleavings": [],
    }
    for _, events in groups:
        for ev in events:
            stats["dir." + ev[2][5:]] += 1
    for ev in scenario["history"]:
        if len(ev) > 5 and ev[5]:
            stats["injected." + ev[5]] += 1
    if steps and "unspecified" in steps[-1]:
        res = {"verdict": core.Verdict.REJECTED, "why": steps[-1]["unspecified"], "stats": dict(stats)}
        res["meta"] = meta
        return res
    inproc = max([s.get("inproc", 0) for s in steps if "state" in s] or [0])
    meta["nontrivial"] = inproc >= 3
    out = drive(scenario, steps, groups, scenario.get("consumer"), prop)
    stats.update(out.stats)
    kinds = list(out.kinds)
    if out.violation is None and (scenario.get("consumer") or {}).get("reeval"):
        # a second, undisturbed evaluation of the same module must not see anything of the first
        again = drive(scenario, steps, groups, None, prop)
        stats["reeval"] += 1
        kinds.append("reeval")
        if again.violation is not None:
            first_done = out.completed
            out = again
            if again.step < first_done:
                # the first evaluation passed this very step: something leaked from it
                out.violation = (again.violation[0], dict(again.violation[1], evaluation="second"), again.violation[2])
    meta["interleavings"] = [core.digest(kinds)]
    if steps and "state" in steps[-1] and steps[-1]["state"] is not None and out.violation is None and "abandon" not in kinds:
        stats["fault.truncated"] += 1
    if any(s.get("proc", 0) >= 2 for s in steps):
        stats["probe.several_procedures"] += 1
    if out.violation is None:
        res = core.result_ok(dict(stats))
    else:
        vclass, sig, wit = diagnose(prop, scenario, groups, steps, out)
        res = core.result_violation(core.Violation(prop, vclass, wit, sig), dict(stats))
    res["meta"] = meta
    return res


def replay(prop, scenario, params):
    return execute(prop, scenario, params)


def run(prop, seed, params):
    streams = core.Streams(seed)
    r = streams.get("sched")
    sigma = {"uuid_seed": r.getrandbits(48), "salt": r.getrandbits(64), "hashseed": core.hashseed_of(seed)}
    scenario = generate(streams, dict(params or {}))
    scenario["seed"] = seed
    scenario["sigma"] = sigma
    return scenario, execute(prop, scenario, params)


# --------------------------------------------------------------------------
# generator

REG_POOL = [0, 1, 2, 3, 4, 5, 6, 7, 8, 12, 16, 29, 30, 31, 32]
BIG_REGS = [33, 63, 64, 100, 127, 128, 1000, 70000]
ENC_FORMATS = [0x00, 0x01, 0x02, 0x03, 0x04, 0x09, 0x0A, 0x0B, 0x0C]
ENC_APPS = [0x00, 0x10, 0x20, 0x30, 0x40, 0x50]


def _pick_w(r, pairs):
    return r.choices([p[0] for p in pairs], weights=[p[1] for p in pairs])[0]


def _reg(r):
    return r.choice(BIG_REGS) if r.random() < 0.08 else r.choice(REG_POOL)


def _off(r):
    x = r.random()
    if x < 0.7:
        return r.choice([4, 8]) * r.randint(-8, 8)
    if x < 0.9:
        return r.randint(-300, 300)
    return r.choice([0, 2**31 - 1, -(2**31), 2**40, -(2**40), 2**63 - 1, -(2**63)])


def _encoding(r):
    e = r.choice(ENC_FORMATS) | r.choice(ENC_APPS)
    return e | 0x80 if r.random() < 0.3 else e


def gen_expr(r, abi, invariant):
    """Random DWARF expression in the reference form (lists as produced by
    cfi_ref.decode_expr); it is encoded by cfi_ref.encode_expr, i.e. NOT by
    the library under test.  ``invariant``: only operations whose encoding
    does not depend on the byte order."""
    ptr_bits = abi["ptr"] * 8
    ops = []
    # (now and then an expression of 128 bytes or more: its ULEB128 length
    # prefix then takes two bytes)
    for _ in range(r.choice([1, 1, 2, 2, 3, 4, 6, 1, 2, 3, 4, 6, 2, 3, 70, 130])):
        kind = r.choice(["breg", "breg", "bregx", "lit", "reg", "regx", "plus_uconst", "c1", "cleb", "wide", "addr", "nullary", "nullary", "pick", "deref_size", "branch"])
        if kind == "breg":
            ops.append(["breg", r.randint(0, 31), _off(r)])
        elif kind == "bregx":
            ops.append(["bregx", _reg(r), _off(r)])
        elif kind == "lit":
            ops.append(["lit", r.randint(0, 31)])
        elif kind == "reg":
            ops.append(["reg", r.randint(0, 31)])
        elif kind == "regx":
            ops.append(["regx", _reg(r)])
        elif kind == "plus_uconst":
            ops.append(["plus_uconst", r.choice([0, 8, 127, 128, 300, 2**32])])
        elif kind == "c1":
            ops.append(r.choice([["const1u", r.randint(0, 255)], ["const1s", r.randint(-128, 127)]]))
        elif kind == "cleb":
            ops.append(r.choice([["constu", abs(_off(r))], ["consts", _off(r)]]))
        elif kind == "wide":
            if invariant:
                ops.append(r.choice([["const2u", 0x0101 * r.randint(0, 255)], ["const4u", 0], ["const8s", -1], ["const2s", -1]]))
            else:
                ops.append(
                    r.choice(
                        [
                            ["const2u", r.randint(0, 0xFFFF)],
                            ["const2s", r.randint(-0x8000, 0x7FFF)],
                            ["const4u", r.randint(0, 2**32 - 1)],
                            ["const4s", r.randint(-(2**31), 2**31 - 1)],
                            ["const8u", r.randint(0, 2**64 - 1)],
                            ["const8s", r.randint(-(2**63), 2**63 - 1)],
                        ]
                    )
                )
        elif kind == "addr":
            ops.append(["addr", r.choice([0, 2**ptr_bits - 1]) if invariant else r.randint(0, 2**ptr_bits - 1)])
        elif kind == "pick":
            ops.append(["pick", r.randint(0, 255)])
        elif kind == "deref_size":
            ops.append(["deref_size", r.choice([1, 2, 4, 8])])
        elif kind == "branch":
            d = r.choice([0, -1]) if invariant else r.randint(-0x8000, 0x7FFF)
            ops.append([r.choice(["skip", "bra"]), d])
        else:
            ops.append([r.choice(["dup", "drop", "over", "swap", "rot", "xderef", "deref", "abs", "and", "div", "minus", "mod", "mul", "neg", "not", "or",
                                  "plus", "shl", "shr", "shra", "xor", "eq", "ge", "gt", "le", "lt", "ne"])])  # fmt: skip
    return ops


def gen_escape(r, abi, invariant):
    """Operand bytes of a .cfi_escape, encoded independently of the library
    (opcode, ULEB128 register, DW_FORM_block = ULEB128 length + expression)."""
    payload = []
    for _ in range(r.choice([1, 1, 1, 2, 3])):
        kind = _pick_w(r, [("def_cfa_expression", 4), ("expression", 4), ("val_expression", 4), ("nop", 2)])
        if kind == "nop":
            payload.append(0x00)
            continue
        body = cfi_ref.encode_expr(gen_expr(r, abi, invariant), abi["order"], abi["ptr"])
        block = _uleb_bytes(len(body)) + body
        if kind == "def_cfa_expression":
            payload += [0x0F] + block
        else:
            reg = r.choice([64, 72, 79, 100, 127]) if r.random() < 0.15 else _reg(r)
            payload += [0x10 if kind == "expression" else 0x16] + _uleb_bytes(reg) + block
    return payload


class _Gen:
    def __init__(self, streams, params):
        self.r = streams.get("gen.history")
        self.rf = streams.get("faults")
        self.params = params
        r = self.r
        self.abi_name = params.get("abi") or _pick_w(streams.get("gen.module"), ABI_WEIGHTS)
        self.abi = cfi_ref.ABIS[self.abi_name]
        # known findings: with probability avoid_known steer away from every known trigger; otherwise expose exactly
        # ONE of them, so that the findings do not mask each other either
        rk = streams.get("gen.knobs")
        self.avoid = rk.random() < float(params.get("avoid_known", 0.8))
        self.expose = [] if self.avoid else [rk.choice(KNOWN)]
        # triggers of findings that have been FIXED in the library are ordinary
        # workload again (restore: F14, ra: F17/F18, order: F19); only the open
        # one (rel: F15/F16) is still steered around
        self.expose = sorted(set(self.expose) | set(FIXED_TRIGGERS))
        self.ref = {"rel_offset": params.get("rel_offset_semantics", "dwarf")}
        self.m = cfi_ref.Machine(self.abi, self.ref)
        self.events = []  # (group, name, ops, sym, tag)
        self.group = 0
        self.p_break = r.choice([0.15, 0.4, 0.6, 0.85])
        self.symbols = ["sym%d" % i for i in range(r.randint(1, 3))]
        self.invariant = "order" not in self.expose and self.abi["order"] == "big"
        nf = _pick_w(self.rf, [(0, 45), (1, 38), (2, 12), (3, 5)])
        self.fault_budget = nf
        self.p_fault = 0.0 if nf == 0 else self.rf.choice([0.05, 0.12, 0.3])
        self.dangling = 0

    # -- emission
    def emit(self, name, ops=(), sym=None, tag=None, glue=False):
        if self.events and not glue and self.r.random() < self.p_break:
            self.m.end_group()
            self.group += 1
        ev = [None, None, name, list(ops), sym]
        res = self.m.step(ev) if name is not None else None
        if res is not None and tag is None:
            raise core.HarnessError(f"generator produced {name} {ops} -> {res} without a fault tag")
        self.events.append((self.group, name, list(ops), sym, tag))
        return res

    def in_proc(self):
        return self.m.s is not None

    # -- faults
    def maybe_fault(self):
        if self.fault_budget <= 0 or self.rf.random() >= self.p_fault:
            return
        rf, s = self.rf, self.m.s
        kinds = []
        if s is None:
            kinds += ["outside-procedure"] * 3
        else:
            kinds += ["nested-startproc", "missing-symbol", "dangling-symbol"]
            if not s.stack:
                kinds += ["restore-state-empty-stack"] * 2
            if s.cfa is None or s.cfa[0] != "reg":
                kinds += ["cfa-not-register-offset"] * 2
            if self.ref["rel_offset"] == "library":
                kinds += ["rel-offset-no-offset-rule"]
            if self.params.get("fault_bad_escape"):
                kinds += ["malformed-escape"]
        kind = rf.choice(kinds)
        self.fault_budget -= 1
        if kind == "outside-procedure":
            name = rf.choice([".cfi_def_cfa", ".cfi_endproc", ".cfi_offset", ".cfi_remember_state", ".cfi_restore_state", ".cfi_def_cfa_offset", ".cfi_escape", ".cfi_personality", ".cfi_return_column", ".cfi_restore"])
            ops = {".cfi_def_cfa": [7, 8], ".cfi_offset": [16, -8], ".cfi_def_cfa_offset": [16], ".cfi_escape": [0], ".cfi_personality": [0xFF], ".cfi_return_column": [3], ".cfi_restore": [3]}.get(name, [])
            self.emit(name, ops, tag=kind)
        elif kind == "nested-startproc":
            self.emit(".cfi_startproc", tag=kind)
        elif kind in ("missing-symbol", "dangling-symbol"):
            sym = None
            if kind == "dangling-symbol":
                self.dangling += 1
                sym = {"dangling": self.dangling}
            self.emit(rf.choice([".cfi_personality", ".cfi_lsda"]), [_encoding(rf)], sym, tag=kind)
        elif kind == "restore-state-empty-stack":
            self.emit(".cfi_restore_state", tag=kind)
        elif kind == "cfa-not-register-offset":
            name = rf.choice([".cfi_def_cfa_register", ".cfi_def_cfa_offset", ".cfi_adjust_cfa_offset"])
            self.emit(name, [rf.choice([6, 7, 8, 16, -8])], tag=kind)
        elif kind == "rel-offset-no-offset-rule":
            cands = [x for x in REG_POOL if s.regs.get(x, ("",))[0] != "offset"]
            self.emit(".cfi_rel_offset", [rf.choice(cands), _off(rf)], tag=kind)
        elif kind == "malformed-escape":
            b = gen_escape(rf, self.abi, self.invariant)
            self.emit(".cfi_escape", b[: max(1, len(b) - rf.randint(1, 3))] if len(b) > 1 else [0x0F], tag=kind)

    # -- one well-formed body directive, chosen with knowledge of the reference state
    def body_directive(self):
        r, s = self.r, self.m.s
        regcfa = s.cfa is not None and s.cfa[0] == "reg"
        ruled = sorted(set(s.regs) | set(s.init_regs))
        w = [("def_cfa", 10), ("offset", 12), ("val_offset", 4), ("register", 4), ("undefined", 3), ("same_value", 3), ("remember", 6),
             ("escape", 10), ("personality", 2), ("lsda", 2), ("return_column", 2), ("empty", 1), ("restore", 8)]  # fmt: skip
        if regcfa:
            w += [("def_cfa_register", 6), ("def_cfa_offset", 8), ("adjust", 8)]
        if s.stack:
            w += [("restore_state", 8)]
        if self.ref["rel_offset"] == "dwarf":
            if regcfa:
                w += [("rel_offset", 7)]
        elif any(v[0] == "offset" for v in s.regs.values()):
            w += [("rel_offset", 7)]
        k = _pick_w(r, w)
        if k == "def_cfa":
            self.emit(".cfi_def_cfa", [_reg(r), _off(r)])
        elif k == "def_cfa_register":
            self.emit(".cfi_def_cfa_register", [_reg(r)])
        elif k == "def_cfa_offset":
            self.emit(".cfi_def_cfa_offset", [_off(r)])
        elif k == "adjust":
            self.emit(".cfi_adjust_cfa_offset", [_off(r)])
        elif k in ("offset", "val_offset"):
            reg = r.choice(ruled) if ruled and r.random() < 0.3 else _reg(r)
            self.emit(".cfi_" + k, [reg, _off(r)])
        elif k == "register":
            self.emit(".cfi_register", [_reg(r), _reg(r)])
        elif k in ("undefined", "same_value"):
            self.emit(".cfi_" + k, [_reg(r)])
        elif k == "remember":
            self.emit(".cfi_remember_state")
        elif k == "restore_state":
            self.emit(".cfi_restore_state")
        elif k == "restore":
            if ruled and ("restore" not in self.expose or r.random() < 0.7):
                self.emit(".cfi_restore", [r.choice(ruled)])
            elif "restore" in self.expose:
                # valid DWARF: the register goes back to its (absent) initial rule.  Known trigger of a KeyError.
                self.emit(".cfi_restore", [_reg(r)], tag="restore-without-rule")
        elif k == "rel_offset":
            if self.ref["rel_offset"] == "library":
                reg = r.choice(sorted(x for x, v in s.regs.items() if v[0] == "offset"))
                self.emit(".cfi_rel_offset", [reg, _off(r)])
            elif "rel" not in self.expose:
                # only where the library's reading (old rule offset + N) and the assembler's (N - CFA offset) agree:
                # the register currently is at offset(-CFA offset), e.g. right after a push
                reg = _reg(r)
                if s.regs.get(reg) != ("offset", -s.cfa[2]):
                    self.emit(".cfi_offset", [reg, -s.cfa[2]])
                self.emit(".cfi_rel_offset", [reg, _off(r)], glue=r.random() < 0.5)
            else:
                reg = r.choice(ruled) if ruled and r.random() < 0.5 else _reg(r)
                self.emit(".cfi_rel_offset", [reg, _off(r)])
        elif k == "escape":
            self.emit(".cfi_escape", gen_escape(r, self.abi, self.invariant))
        elif k in ("personality", "lsda"):
            if r.random() < 0.25:
                sym = r.choice([None, r.choice(self.symbols), {"dangling": 99}])  # omit: the symbol is irrelevant
                self.emit(".cfi_" + k, [0xFF], sym)
            else:
                self.emit(".cfi_" + k, [_encoding(r)], r.choice(self.symbols))
        elif k == "return_column":
            self.emit(".cfi_return_column", [_reg(r)])
        elif k == "empty":
            self.emit(None)

    def procedure(self, last):
        r = self.r
        self.emit(".cfi_startproc", tag=None if self.abi["eh"] else "abi-refusal")
        if not self.in_proc():
            return  # ABI refusal
        if "ra" not in self.expose and self.abi["ra"] != LIB_DEFAULT_RA.get(self.abi_name, self.abi["ra"]):
            # known: the library's default return column differs from the toolchain's for this ABI; an explicit
            # .cfi_return_column at the startproc location keeps the rest of the run meaningful
            self.emit(".cfi_return_column", [self.abi["ra"] if r.random() < 0.7 else _reg(r)], glue=True)
        n = r.choice([0, 1, 2, 3, 4, 5, 6, 8, 10, 14])
        for _ in range(n):
            self.maybe_fault()
            if not self.in_proc():
                break
            self.body_directive()
        self.maybe_fault()
        if self.in_proc() and not (last and r.random() < 0.15):
            self.emit(".cfi_endproc")


def generate(streams, params):
    g = _Gen(streams, params)
    r = g.r
    if g.abi["eh"]:
        nproc = r.choice([1, 1, 2, 2, 3, 4])
    else:
        nproc = r.choice([1, 1, 2])
    for p in range(nproc):
        g.maybe_fault()
        # the refusing ABIs never enter a procedure: stop after the first attempt
        if not g.abi["eh"] and p > 0:
            break
        g.procedure(last=p == nproc - 1)
    g.maybe_fault()
    ngroups = g.group + 1
    # ---- place the groups on (block, offset) locations in address order
    rm = streams.get("gen.module")
    nblocks = rm.randint(1, 6)
    cuts = sorted(rm.randint(0, ngroups) for _ in range(nblocks - 1))
    runs = [b - a for a, b in zip([0] + cuts, cuts + [ngroups])]
    blocks, locs, addr = [], [], 0x1000 * rm.randint(1, 16)
    for bi, n in enumerate(runs):
        size = max(1, n - 1 + rm.choice([0, 0, 1, 2, 5, 12]))
        addr += rm.choice([0, 0, 1, 3, 16, 256])
        blocks.append({"addr": addr, "size": size})
        offs = sorted(rm.sample(range(size + 1), n))
        locs.extend((bi, o) for o in offs)
        addr += size
    history = [[locs[gi][0], locs[gi][1], name, ops, sym, tag] for gi, name, ops, sym, tag in g.events]
    # creation order of the blocks differs from address order; so does the order they are handed over
    perm = list(range(nblocks))
    rm.shuffle(perm)
    inv = {old: new for new, old in enumerate(perm)}
    blocks = [blocks[old] for old in perm]
    for ev in history:
        ev[0] = inv[ev[0]]
    passed = list(range(nblocks))
    rm.shuffle(passed)
    if rm.random() < 0.12:
        # decoy: a block that carries directives but is not handed to the evaluator
        blocks.append({"addr": max(b["addr"] + b["size"] for b in blocks) + 8, "size": 4})
        d = len(blocks) - 1
        history.append([d, 0, rm.choice([".cfi_startproc", ".cfi_def_cfa", ".cfi_restore_state", ".cfi_bogus"]), [7, 8], None, None])
        if rm.random() < 0.5:
            # ... and sits between the others in address order
            blocks[d]["addr"], blocks[d]["size"] = 0x10, 4
    history = _stable_interleave(history, g.events, locs, inv, rm)
    # ---- consumer schedule
    scenario = {
        "engine": "cfisim",
        "abi": g.abi_name,
        "ref": g.ref,
        "gen": {"avoid_known": g.avoid, "expose": g.expose},
        "blocks": blocks,
        "pass": passed,
        "symbols": g.symbols,
        "history": history,
    }
    _, steps = _expected(scenario)
    nyield = sum(1 for s in steps if "state" in s)
    rc = streams.get("consumer")
    p_copy = rc.choice([0.0, 0.3, 0.7, 1.0])
    copies = [k for k in range(nyield) if rc.random() < p_copy and steps[k]["state"] is not None]
    muts = []
    for c in copies:
        if rc.random() < 0.45:
            muts.append({"at": rc.randint(c, max(c, nyield - 1)), "copy": c, "kind": rc.choice(MUT_KINDS)})
    scenario["consumer"] = {
        "copy": copies,
        "hold": [k for k in range(nyield) if rc.random() < 0.2],
        "mutate": muts,
        "abandon": rc.randint(0, nyield) if rc.random() < 0.12 else None,
        "reeval": rc.random() < 0.25,
    }
    return scenario


def _stable_interleave(history, events, locs, inv, rm):
    """History list in a seeded order that keeps the generation order of the
    events of each location (the aux data table stores a list per Offset;
    only the order inside one list is meaningful)."""
    main = [[inv[locs[gi][0]], locs[gi][1], name, ops, sym, tag] for gi, name, ops, sym, tag in events]
    extra = [e for e in history if e[0] >= len(inv)]
    by_loc = collections.OrderedDict()
    for e in main + extra:
        by_loc.setdefault((e[0], e[1]), []).append(e)
    keys = list(by_loc)
    mode = rm.choice(["address", "reverse", "shuffled"])
    if mode == "reverse":
        keys.reverse()
    elif mode == "shuffled":
        rm.shuffle(keys)
    out = []
    for k in keys:
        out.extend(by_loc[k])
    return out


# --------------------------------------------------------------------------
# describe / shrink


def _ev_str(ev):
    if ev[2] is None:
        return "(empty)"
    s = ev[2][5:]
    if ev[2] == ".cfi_escape":
        s += " " + bytes(ev[3]).hex()
    elif ev[3]:
        s += " " + ",".join(str(x) for x in ev[3])
    if ev[4] is not None:
        s += " @" + (ev[4] if isinstance(ev[4], str) else "dangling")
    if len(ev) > 5 and ev[5]:
        s += " !" + ev[5]
    return s


def describe(scenario):
    groups = cfi_ref.group_history(scenario["blocks"], scenario["history"], scenario["pass"])
    by = collections.OrderedDict()
    for ev in scenario["history"]:
        by.setdefault((ev[0], ev[1]), []).append(ev)
    return {
        "abi": scenario["abi"],
        "ref": scenario.get("ref"),
        "gen": scenario.get("gen"),
        "blocks": scenario["blocks"],
        "pass": scenario["pass"],
        "locations": [f"b{loc[0]}+{loc[1]}: " + "; ".join(_ev_str(e) for e in by[(loc[0], loc[1])]) for loc, _ in groups],
        "consumer": scenario.get("consumer"),
        "sigma": scenario["sigma"],
    }


def shrink_candidates(prop, scenario):
    sc = scenario
    cons = sc.get("consumer") or {}

    def with_(**kw):
        c = _copy.deepcopy(sc)
        c.update(kw)
        return c

    # consumer: nothing at all, then piecewise
    if any(cons.get(k) for k in ("copy", "hold", "mutate", "reeval")) or cons.get("abandon") is not None:
        yield with_(consumer={"copy": [], "hold": [], "mutate": [], "abandon": None, "reeval": False})
    for key, empty in (("hold", []), ("mutate", []), ("reeval", False), ("abandon", None)):
        if cons.get(key) not in (empty, None):
            c = _copy.deepcopy(sc)
            c["consumer"][key] = empty
            yield c
    if len(cons.get("mutate") or []) > 1:
        for i in range(len(cons["mutate"])):
            c = _copy.deepcopy(sc)
            del c["consumer"]["mutate"][i]
            yield c
    if len(cons.get("copy") or []) > 1:
        used = {m["copy"] for m in cons.get("mutate") or []}
        for i, k in enumerate(cons["copy"]):
            if k not in used:
                c = _copy.deepcopy(sc)
                del c["consumer"]["copy"][i]
                yield c
    # history: in address order, drop suffix / prefix halves, whole procedures, single events
    h = sc["history"]
    addr = {i: b["addr"] for i, b in enumerate(sc["blocks"])}
    order = sorted(range(len(h)), key=lambda i: (addr[h[i][0]], h[i][0], h[i][1], i))

    def without(idxs):
        idxs = set(idxs)
        c = _copy.deepcopy(sc)
        c["history"] = [e for i, e in enumerate(c["history"]) if i not in idxs]
        return c

    n = len(order)
    if n > 1:
        for frac in (2, 4):
            cut = n - max(1, n // frac)
            yield without(order[cut:])
        yield without(order[: n // 2])
        starts = [j for j, i in enumerate(order) if h[i][2] == ".cfi_startproc"]
        for a, b in zip(starts, starts[1:] + [n]):
            if b - a < n:
                yield without(order[a:b])
        for j in range(n):
            yield without([order[j]])
    # merge: move every event to offset 0 of its block? changes grouping; try merging neighbouring locations
    locs = sorted({(addr[e[0]], e[0], e[1]) for e in h})
    for a, b in zip(locs, locs[1:]):
        c = _copy.deepcopy(sc)
        # events of location b are appended to location a (address order is kept)
        moved = [e for e in c["history"] if (e[0], e[1]) == (b[1], b[2])]
        rest = [e for e in c["history"] if (e[0], e[1]) != (b[1], b[2])]
        last = max((i for i, e in enumerate(rest) if (e[0], e[1]) == (a[1], a[2])), default=None)
        if last is None:
            continue
        for e in moved:
            e[0], e[1] = a[1], a[2]
        c["history"] = rest[: last + 1] + moved + rest[last + 1 :]
        yield c
    # blocks without events
    usedb = {e[0] for e in h}
    for bi in range(len(sc["blocks"])):
        if bi not in usedb and len(sc["blocks"]) > 1:
            c = _copy.deepcopy(sc)
            del c["blocks"][bi]
            for e in c["history"]:
                if e[0] > bi:
                    e[0] -= 1
            c["pass"] = [p - (p > bi) for p in c["pass"] if p != bi]
            yield c
    if sc["pass"] != sorted(sc["pass"]):
        yield with_(**{"pass": sorted(sc["pass"])})
    if sc["abi"] != "x64-elf":
        yield with_(abi="x64-elf")
    # operands
    for i, e in enumerate(h):
        if e[2] in (None, ".cfi_escape"):
            continue
        for j, v in enumerate(e[3]):
            for small in (0, 1, 8):
                if abs(v) > small and not (e[2] in (".cfi_personality", ".cfi_lsda") and small):
                    c = _copy.deepcopy(sc)
                    c["history"][i][3][j] = small
                    yield c
                    break
    # escape payloads: keep a single instruction, drop single operations of an expression
    abi = cfi_ref.ABIS[sc["abi"]]
    for i, e in enumerate(h):
        if e[2] != ".cfi_escape":
            continue
        for payload in _escape_shrinks(list(e[3]), abi):
            c = _copy.deepcopy(sc)
            c["history"][i][3] = payload
            yield c
    if sc["sigma"].get("salt"):
        c = _copy.deepcopy(sc)
        c["sigma"]["salt"] = 0
        yield c


def _uleb_bytes(v):
    out = []
    while True:
        b = v & 0x7F
        v >>= 7
        out.append(b | (0x80 if v else 0))
        if not v:
            return out


def _escape_shrinks(b, abi):
    spans = []
    try:
        cfi_ref.decode_escape(b, abi["order"], abi["ptr"], spans)
    except cfi_ref.Malformed:
        return
    if len(spans) > 1:
        for s in spans:
            yield b[: s[0]] + b[s[1] :]
    for s in spans:
        if s[2] is None:
            continue
        start, end, lenpos, estart = s
        ops = []
        try:
            cfi_ref.decode_expr(b[estart:end], abi["order"], abi["ptr"], ops)
        except cfi_ref.Malformed:
            continue
        if len(ops) < 2:
            continue
        for a, z in ops:
            body = b[estart : estart + a] + b[estart + z : end]
            yield b[:start] + b[start:lenpos] + _uleb_bytes(len(body)) + body + b[end:]
