"""Check configuration of the machsim engine (C16, C17); merged into sim/props.py."""

_REAL = (
    "real: gtirb_rewriting.abi (ABI._allocate_patch_registers, _create_prologue_and_epilogue of all five ABIs), "
    "gtirb_rewriting.patches.calls.CallPatch, RewritingContext (insert_at, apply, _invoke_patch, _update_leaf_functions / "
    "leafFunctions aux table over one or two sessions on a real one-function gtirb module), Assembler and mcasm/LLVM MC "
    "(the executed bytes are the library's own Assembler.Result captured at _invoke_patch); "
    "stub: the CPU interpreter (sim/mach_cpu.py, capstone-decoded, ~15 instruction forms per ISA, anything else is a harness "
    "error), the linker (seeded symbol address map, sentinel values stored at the symbols), signal delivery (overwrites "
    "[SP-redzone-N, SP-redzone) between any two instructions; redzone=128 on x86-64 ELF, else 0), the havoc patch body and "
    "the havoc callee; oracle: hard-coded ABI tables (register aliases, caller-saved sets, default conventions, alignment)"
)

PROPS = {
    "C16": {
        "engine": "machsim",
        "level": "exploration",
        "quick_runs": 30000,
        "thorough_runs": 450000,
        "quick_wall": 300,
        "thorough_wall": 2400,
        "params": {"avoid_known": 0.8},
        "rule": "one run = one seeded configuration executed concretely: ABI (x64-elf, x64-pe, ia32-pe, arm64-elf, mips32-elf) x "
        "Constraints (random subset of the ABI's register names incl. sub-register aliases and mixed case: none/few/many/all; "
        "clobbers_flags; align_stack (never on MIPS32: documented refusal); preserve_caller_saved_registers; scratch count up to "
        "what the pool can give; reads_registers; x86 syntax) x enclosing function (leaf / non-leaf / no function; optionally a "
        "first rewriting session that inserts a call so that the leafFunctions history is real; PIE or not; 3 insertion sites) x "
        "initial registers, flags and SP (every slot alignment, arbitrary byte alignment in 10% of the x86 align_stack runs) x "
        "havoc body (sets exactly the declared / scratch / caller-saved registers and flags, balanced pushes and pops, writes "
        "below its SP) x 0-3 signals at seeded unit boundaries (also inside the body). avoid_known=0.8: 80% of the runs steer "
        "away from the triggers of the listed findings. distinct = digest of the scenario without sigma; non-trivial = "
        "non-empty Constraints",
        "interleaving_measure": "distinct per-run sequences of executed unit kinds (instruction mnemonics, havoc step kinds, signal arrivals)",
        "real_vs_stub": _REAL,
        "assumptions": [
            "the oracle only demands what C16 states: registers that are neither declared, scratch nor caller-saved-under-"
            "preserve are not required to survive; the flags are only required to survive when declared clobbered (changes to "
            "undeclared flags/registers made by the generated code itself are counted as probe.* counters; "
            "params.strict_transparency turns them into violations)",
            "'asked to preserve as caller-saved' is judged against the platform ABI documents (SysV x86-64, Win64, IA32 "
            "cdecl/stdcall, AAPCS64: x0-x17 and x30, MIPS o32: $at $v0-$v1 $a0-$a3 $t0-$t9), not against "
            "ABI.caller_saved_registers()",
            "a patch body never leaves the stack pointer unbalanced, even when it lists the stack pointer as clobbered (MIPS32 "
            "all_registers() contains sp); writes to $zero have no effect",
            "the kernel honours the 128-byte red zone for every x86-64 SysV function; x86-64 PE, IA32, ARM64 and MIPS32 have none",
            "legal initial SP: multiple of 8 (x86-64), 4 (IA32), 16 (ARM64), 8 (MIPS32)",
            "undocumented exceptions raised by the register allocator / prologue builder for a legal Constraints value are "
            "reported as scratch-allocation; 'unable to allocate enough scratch registers' for an unsatisfiable request and "
            "align_stack on MIPS32 are documented refusals (never generated)",
        ],
    },
    "C17": {
        "engine": "machsim",
        "level": "exploration",
        "quick_runs": 30000,
        "thorough_runs": 450000,
        "quick_wall": 300,
        "thorough_wall": 2400,
        "params": {"avoid_known": 0.8},
        "rule": "one run = one seeded configuration executed concretely: ABI (x64-elf, x64-pe, ia32-pe, arm64-elf) x 0-16 arguments "
        "(integers over the full 64-bit range incl. negative values and immediate-encoding boundaries; 32-bit range on IA32; "
        "symbols: data symbol, external symbol, the callee; 20% wrapped in callables) x calling convention (default, or custom "
        "CallingConventionDesc: 0-8 registers, alignment slot..64, shadow space, caller/callee cleanup; ARM64 only alignment 16 "
        "and no shadow space: documented refusals) x constraint overrides (align_stack on/off, preserve_caller_saved_registers, "
        "clobbers_flags, scratch count, clobbers set => every prologue stack adjustment from 0 to 128+8*16) x enclosing "
        "function (leaf/non-leaf/none, leafFunctions history) x initial SP (aligned to the convention, or any slot alignment "
        "with align_stack, 15% arbitrary) x havoc callee (garbage below its SP, into the shadow space and its stack arguments, "
        "caller-saved registers and flags; pops its stack arguments under callee cleanup) x 0-3 signals. avoid_known=0.8 as for "
        "C16. distinct = digest of the scenario without sigma; non-trivial = at least one argument",
        "interleaving_measure": "distinct per-run sequences of executed unit kinds (instruction mnemonics, callee, ret, signal arrivals)",
        "real_vs_stub": _REAL,
        "assumptions": [
            "the call's alignment is only judged when the starting point is aligned in the convention's terms: without "
            "align_stack the initial SP is a multiple of the convention's alignment and stack_adjustment is reported; with "
            "align_stack the convention's alignment divides the ABI alignment that align_stack establishes (16 on x86-64, 4 on "
            "IA32); other runs count probe.call_align_skipped",
            "an integer argument must arrive modulo 2^(8*slot); IA32 integers are drawn from [-2^31, 2^32)",
            "the symbol map is seeded; the word stored at each symbol differs from the symbol's address, so 'address' and 'value "
            "loaded from the symbol' are distinguishable; PLT-attributed call targets are the callee itself",
            "misplacement (arg-register / arg-stack) is reported when the expected value is found in another argument position "
            "and is unique among the arguments, otherwise arg-value",
            "exceptions raised by the register allocator for the Constraints CallPatch declares are C16's (counted as desync)",
            "MIPS32 has no CallPatch (NotImplementedError, documented)",
        ],
    },
}
