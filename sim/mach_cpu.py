"""machsim's simulated CPU: a small capstone-decoded interpreter.

Only the instruction forms that gtirb_rewriting's ABI prologues/epilogues and
CallPatch can legally emit are implemented; *anything else* raises
``core.HarnessError`` (never a violation).  The interpreter is a trusted stub.

* x86 / x86-64: push r|imm|mem, pop r, pushf*/popf*, lea, and r,imm,
  mov r,r | r,imm | r,mem | mem,r, movabs, add/sub r,imm, call rel, nop
* ARM64: stp/ldp/str/ldr (pre-index, post-index, unsigned offset) of x
  registers, mrs/msr nzcv, mov (movz/movn aliases), movz, movk, movn, adrp,
  add/sub (immediate, incl. :lo12:), bl, nop
* MIPS32 (big endian): addiu, sw, lw, nop

Memory is a sparse dict of bytes.  A byte that was never written reads as a
deterministic *sentinel* that depends on its address and the fill seed.  Every
byte has an owner tag (who wrote it last: "init", "code", "body", "signal",
"callee", "data") and all reads/writes are logged.

Symbolic operands: the assembler leaves zero in the instruction field and
records a gtirb symbolic expression at the field's offset.  ``link`` maps
that offset to (symbol name, addend, attributes); the interpreter substitutes
the symbol's seeded address when it evaluates the operand.
"""

import re

import capstone
import capstone.x86_const as X

from . import core

M64 = (1 << 64) - 1
M32 = (1 << 32) - 1


# --------------------------------------------------------------------------
# memory


class Access:
    __slots__ = ("addr", "size", "who", "step", "owners")

    def __init__(self, addr, size, who, step, owners=None):
        self.addr = addr
        self.size = size
        self.who = who
        self.step = step
        self.owners = owners

    def as_json(self):
        d = {"addr": hex(self.addr), "size": self.size, "who": self.who, "step": self.step}
        if self.owners is not None:
            d["owners"] = self.owners
        return d


class Memory:
    def __init__(self, fill_seed: int, little: bool):
        self.fill = fill_seed & M64
        self.little = little
        self.data = {}
        self.owner = {}
        self.wlog = []
        self.rlog = []
        self.step = 0  # set by the driver: index of the unit being executed

    def sentinel(self, addr: int) -> int:
        x = ((addr ^ self.fill) * 0x9E3779B97F4A7C15) & M64
        x ^= x >> 29
        return (x * 0xBF58476D1CE4E5B9 >> 40) & 0xFF

    def peek_byte(self, addr):
        b = self.data.get(addr)
        return self.sentinel(addr) if b is None else b

    def peek(self, addr, size):
        """Read without logging (oracle use)."""
        bs = bytes(self.peek_byte(a) for a in range(addr, addr + size))
        return int.from_bytes(bs, "little" if self.little else "big")

    def owners(self, addr, size):
        return sorted({self.owner.get(a, "init") for a in range(addr, addr + size)})

    def read(self, addr, size, who):
        self.rlog.append(Access(addr, size, who, self.step, self.owners(addr, size)))
        return self.peek(addr, size)

    def write(self, addr, size, value, who):
        bs = (value & ((1 << (8 * size)) - 1)).to_bytes(size, "little" if self.little else "big")
        self.write_bytes(addr, bs, who)

    def write_bytes(self, addr, bs, who):
        self.wlog.append(Access(addr, len(bs), who, self.step))
        data, owner = self.data, self.owner
        for i, b in enumerate(bs):
            data[addr + i] = b
            owner[addr + i] = who


# --------------------------------------------------------------------------
# decoded instruction


class Insn:
    __slots__ = ("off", "size", "mnemonic", "op_str", "cs", "sym")

    def __init__(self, off, size, mnemonic, op_str, cs, sym):
        self.off = off
        self.size = size
        self.mnemonic = mnemonic
        self.op_str = op_str
        self.cs = cs
        self.sym = sym  # {field offset relative to insn: (name, addend, attrs)}

    @property
    def text(self):
        return (self.mnemonic + " " + self.op_str).strip()


class CPU:
    """Base class.  ``regs`` maps canonical register names to ints;
    ``sp_name`` is the stack pointer's canonical name."""

    little = True
    width = 8
    sp_name = "sp"
    is_marker_mnemonic = ("nop",)

    def __init__(self, mem: Memory, code: bytes, base: int, link: dict, symaddr: dict):
        self.mem = mem
        self.code = code
        self.base = base
        self.link = link
        self.symaddr = symaddr
        self.regs = {}
        self.flags = 0
        self.insns = self._decode_all()

    # -- helpers
    @property
    def mask(self):
        return (1 << (8 * self.width)) - 1

    @property
    def sp(self):
        return self.regs[self.sp_name]

    @sp.setter
    def sp(self, v):
        self.regs[self.sp_name] = v & self.mask

    def unsupported(self, ins, why=""):
        raise core.HarnessError(f"machsim cpu: unsupported instruction '{ins.text}' at +{ins.off} {why}")

    def sym_value(self, ins, field_off):
        """Value S+A of the symbolic expression attached to the field at
        ``field_off`` bytes into the instruction, or None."""
        ent = ins.sym.get(field_off)
        if ent is None:
            return None
        name, addend, attrs = ent
        if "PLT" in attrs:
            raise core.HarnessError(f"machsim cpu: PLT reference in a data operand of '{ins.text}'")
        if name not in self.symaddr:
            raise core.HarnessError(f"machsim cpu: no address for symbol {name}")
        return (self.symaddr[name] + addend) & self.mask

    def _make_cs(self):
        raise NotImplementedError

    def _decode_all(self):
        cs = self._make_cs()
        cs.detail = True
        out = []
        pos = 0
        for i in cs.disasm(self.code, self.base):
            off = i.address - self.base
            if off != pos:
                break
            sym = {}
            for fo in range(i.size):
                if off + fo in self.link:
                    sym[fo] = self.link[off + fo]
            out.append(Insn(off, i.size, i.mnemonic, i.op_str, i, sym))
            pos = off + i.size
        if pos != len(self.code):
            raise core.HarnessError(f"machsim cpu: cannot decode byte {pos} of {self.code.hex()}")
        covered = set()
        for ins in out:
            covered.update(ins.off + fo for fo in ins.sym)
        if covered != set(self.link):
            raise core.HarnessError("machsim cpu: symbolic expression outside any instruction field")
        return out

    def is_marker(self, ins):
        return ins.mnemonic in self.is_marker_mnemonic and not ins.op_str

    def execute(self, ins):
        """Execute one instruction.  Returns None, or ("call", symbol name,
        return address) for a call instruction (the stack effect of the call
        instruction itself has been applied)."""
        raise NotImplementedError

    # used by the havoc body / callee
    def push_word(self, value, who):
        self.sp = self.sp - self.width
        self.mem.write(self.sp, self.width, value, who)

    def pop_word(self, who):
        v = self.mem.read(self.sp, self.width, who)
        self.sp = self.sp + self.width
        return v


# --------------------------------------------------------------------------
# x86


X86_FLAG_MASK = 0x0CD5 | 0x400  # CF PF AF ZF SF OF | DF
X86_FLAG_FIXED = 0x202  # bit 1 always set, IF set in user mode

_X64_REGS = ["rax", "rbx", "rcx", "rdx", "rsi", "rdi", "rbp", "rsp"] + [f"r{i}" for i in range(8, 16)]
_IA32_REGS = ["eax", "ebx", "ecx", "edx", "esi", "edi", "ebp", "esp"]
_X64_SUB32 = {"e" + r[1:]: r for r in _X64_REGS[:8]}
_X64_SUB32.update({f"r{i}d": f"r{i}" for i in range(8, 16)})


def _parity(x):
    return bin(x & 0xFF).count("1") % 2 == 0


class X86CPU(CPU):
    def __init__(self, mem, code, base, link, symaddr, bits):
        self.bits = bits
        self.width = bits // 8
        self.sp_name = "rsp" if bits == 64 else "esp"
        super().__init__(mem, code, base, link, symaddr)
        for r in _X64_REGS if bits == 64 else _IA32_REGS:
            self.regs[r] = 0
        self.flags = X86_FLAG_FIXED

    def _make_cs(self):
        return capstone.Cs(capstone.CS_ARCH_X86, capstone.CS_MODE_64 if self.bits == 64 else capstone.CS_MODE_32)

    # registers -------------------------------------------------------
    def _reg(self, ins, regid):
        """-> (canonical name, size in bytes)"""
        name = ins.cs.reg_name(regid)
        if name in self.regs:
            return name, self.width
        if self.bits == 64 and name in _X64_SUB32:
            return _X64_SUB32[name], 4
        self.unsupported(ins, f"(register {name})")

    def _get_reg(self, ins, regid):
        name, size = self._reg(ins, regid)
        return self.regs[name] & ((1 << (8 * size)) - 1)

    def _set_reg(self, ins, regid, value):
        name, size = self._reg(ins, regid)
        # 32-bit writes zero-extend in 64-bit mode
        self.regs[name] = value & ((1 << (8 * size)) - 1)

    # operands --------------------------------------------------------
    def _ea(self, ins, op):
        mem = op.mem
        if mem.segment != 0:
            self.unsupported(ins, "(segment override)")
        enc = ins.cs
        disp_off = enc.disp_offset
        symv = self.sym_value(ins, disp_off) if disp_off else None
        base_name = ins.cs.reg_name(mem.base) if mem.base else None
        if symv is not None:
            # symbol-relative operand: [rip + sym] or absolute [sym]
            if base_name not in (None, "rip", "eip") or mem.index:
                self.unsupported(ins, "(symbolic displacement with base/index)")
            return symv
        addr = mem.disp
        if base_name in ("rip", "eip"):
            addr += self.base + ins.off + ins.size
        elif base_name is not None:
            addr += self._get_reg(ins, mem.base)
        if mem.index:
            addr += self._get_reg(ins, mem.index) * mem.scale
        return addr & self.mask

    def _read_op(self, ins, op, who="code"):
        if op.type == X.X86_OP_REG:
            return self._get_reg(ins, op.reg)
        if op.type == X.X86_OP_IMM:
            imm_off = ins.cs.imm_offset
            symv = self.sym_value(ins, imm_off) if imm_off else None
            if symv is not None:
                return symv & ((1 << (8 * op.size)) - 1)
            return op.imm & ((1 << (8 * op.size)) - 1)
        if op.type == X.X86_OP_MEM:
            return self.mem.read(self._ea(ins, op), op.size, who)
        self.unsupported(ins, "(operand type)")

    def _write_op(self, ins, op, value):
        if op.type == X.X86_OP_REG:
            self._set_reg(ins, op.reg, value)
        elif op.type == X.X86_OP_MEM:
            self.mem.write(self._ea(ins, op), op.size, value, "code")
        else:
            self.unsupported(ins, "(destination operand)")

    def _check_syms(self, ins, allowed):
        for fo in ins.sym:
            if fo not in allowed or fo == 0:
                self.unsupported(ins, f"(symbolic expression at unexpected field +{fo})")

    # flags -----------------------------------------------------------
    def _flags_logic(self, res, size):
        bits = 8 * size
        f = self.flags & ~0x8C5  # clear CF PF ZF SF OF (AF undefined: left unchanged)
        if res == 0:
            f |= 0x40
        if res >> (bits - 1) & 1:
            f |= 0x80
        if _parity(res):
            f |= 0x04
        self.flags = f

    def _flags_arith(self, a, b, res_full, size, is_sub):
        bits = 8 * size
        m = (1 << bits) - 1
        res = res_full & m
        f = self.flags & ~0x8D5
        if is_sub:
            if a < b:
                f |= 0x01
            if ((a ^ b) & (a ^ res)) >> (bits - 1) & 1:
                f |= 0x800
        else:
            if res_full > m:
                f |= 0x01
            if (~(a ^ b) & (a ^ res)) >> (bits - 1) & 1:
                f |= 0x800
        if (a ^ b ^ res) & 0x10:
            f |= 0x10
        if res == 0:
            f |= 0x40
        if res >> (bits - 1) & 1:
            f |= 0x80
        if _parity(res):
            f |= 0x04
        self.flags = f

    # execution -------------------------------------------------------
    def execute(self, ins):
        m = ins.mnemonic
        c = ins.cs
        if c.prefix[0] or c.prefix[1] or c.prefix[3]:
            self.unsupported(ins, "(prefix)")
        ops = c.operands
        W = self.width
        disp_off, imm_off = c.disp_offset, c.imm_offset
        self._check_syms(ins, {o for o in (disp_off, imm_off) if o})
        if m == "push":
            (op,) = ops
            if op.size != W:
                self.unsupported(ins, "(push operand size)")
            v = self._read_op(ins, op)
            self.sp = self.sp - W
            self.mem.write(self.sp, W, v, "code")
        elif m == "pop":
            (op,) = ops
            if op.type != X.X86_OP_REG or op.size != W:
                self.unsupported(ins)
            v = self.mem.read(self.sp, W, "code")
            self.sp = self.sp + W
            self._set_reg(ins, op.reg, v)
        elif m in ("pushfq", "pushfd", "pushf"):
            if (m == "pushfq") != (self.bits == 64) or c.prefix[2]:
                self.unsupported(ins)
            self.sp = self.sp - W
            self.mem.write(self.sp, W, self.flags, "code")
        elif m in ("popfq", "popfd", "popf"):
            if (m == "popfq") != (self.bits == 64) or c.prefix[2]:
                self.unsupported(ins)
            v = self.mem.read(self.sp, W, "code")
            self.sp = self.sp + W
            self.flags = (v & X86_FLAG_MASK) | X86_FLAG_FIXED
        elif m == "lea":
            dst, src = ops
            if dst.type != X.X86_OP_REG or src.type != X.X86_OP_MEM:
                self.unsupported(ins)
            self._set_reg(ins, dst.reg, self._ea(ins, src))
        elif m == "and":
            dst, src = ops
            if dst.type != X.X86_OP_REG or src.type != X.X86_OP_IMM:
                self.unsupported(ins)
            res = self._get_reg(ins, dst.reg) & self._read_op(ins, src)
            self._set_reg(ins, dst.reg, res)
            self._flags_logic(res & ((1 << (8 * dst.size)) - 1), dst.size)
        elif m in ("mov", "movabs"):
            dst, src = ops
            if dst.size not in (4, 8) or dst.size > W:
                self.unsupported(ins, "(operand size)")
            if dst.type == X.X86_OP_MEM and src.type == X.X86_OP_MEM:
                self.unsupported(ins)
            self._write_op(ins, dst, self._read_op(ins, src))
        elif m in ("add", "sub"):
            dst, src = ops
            if dst.type != X.X86_OP_REG or src.type != X.X86_OP_IMM:
                self.unsupported(ins)
            a = self._get_reg(ins, dst.reg)
            b = self._read_op(ins, src)
            full = a - b if m == "sub" else a + b
            self._set_reg(ins, dst.reg, full)
            self._flags_arith(a, b, full, dst.size, m == "sub")
        elif m == "call":
            (op,) = ops
            if op.type != X.X86_OP_IMM or imm_off not in ins.sym:
                self.unsupported(ins, "(only direct calls to a symbol)")
            name = ins.sym[imm_off][0]
            if ins.sym[imm_off][1] != 0:
                self.unsupported(ins, "(call with addend)")
            ret = (self.base + ins.off + ins.size) & self.mask
            self.sp = self.sp - W
            self.mem.write(self.sp, W, ret, "code")
            return ("call", name, ret)
        elif m == "nop":
            pass
        else:
            self.unsupported(ins)
        return None

    def ret(self, extra):
        """Callee returns: pop the return address and ``extra`` bytes."""
        v = self.mem.read(self.sp, self.width, "callee")
        self.sp = self.sp + self.width + extra
        return v


# --------------------------------------------------------------------------
# ARM64

_A64_MEM = re.compile(r"^\[(\w+)(?:, #(-?(?:0x)?[0-9a-f]+))?\](!)?(?:, #(-?(?:0x)?[0-9a-f]+))?$")


def _int(s):
    return int(s, 0)


class A64CPU(CPU):
    width = 8
    sp_name = "sp"

    def __init__(self, mem, code, base, link, symaddr):
        super().__init__(mem, code, base, link, symaddr)
        for i in range(31):
            self.regs[f"x{i}"] = 0
        self.regs["sp"] = 0
        self.flags = 0  # NZCV in bits 31..28

    def _make_cs(self):
        return capstone.Cs(capstone.CS_ARCH_ARM64, capstone.CS_MODE_ARM)

    def _x(self, ins, name):
        if name == "fp":
            name = "x29"
        elif name == "lr":
            name = "x30"
        if name not in self.regs or name == "sp":
            self.unsupported(ins, f"(register {name})")
        return name

    def _base(self, ins, name):
        if name == "sp":
            if self.regs["sp"] & 15:
                # hardware would raise an SP alignment fault
                raise SPAlignmentFault(ins.text, self.regs["sp"])
            return "sp"
        return self._x(ins, name)

    def _split(self, ins):
        s = ins.op_str
        i = s.find("[")
        if i < 0:
            return [p.strip() for p in s.split(",")], None
        regs = [p.strip() for p in s[:i].split(",") if p.strip()]
        m = _A64_MEM.match(s[i:].strip())
        if not m:
            self.unsupported(ins, "(addressing mode)")
        return regs, m

    def _mem_access(self, ins, nregs, load):
        regs, m = self._split(ins)
        if m is None or len(regs) != nregs:
            self.unsupported(ins)
        regs = [self._x(ins, r) for r in regs]
        if ins.sym:
            self.unsupported(ins, "(symbolic memory operand)")
        base = self._base(ins, m.group(1))
        off = _int(m.group(2)) if m.group(2) else 0
        pre = bool(m.group(3))
        post = _int(m.group(4)) if m.group(4) else None
        if post is not None and (pre or m.group(2)):
            self.unsupported(ins)
        bval = self.regs[base]
        addr = (bval + off) & M64 if post is None else bval
        if load:
            # the base register is updated after the access; a loaded register that is the base is unpredictable
            for k, r in enumerate(regs):
                self.regs[r] = self.mem.read((addr + 8 * k) & M64, 8, "code")
        else:
            for k, r in enumerate(regs):
                self.mem.write((addr + 8 * k) & M64, 8, self.regs[r], "code")
        if pre:
            self.regs[base] = addr
        elif post is not None:
            self.regs[base] = (bval + post) & M64

    def execute(self, ins):
        m = ins.mnemonic
        if m in ("stp", "ldp"):
            self._mem_access(ins, 2, m == "ldp")
        elif m in ("str", "ldr"):
            self._mem_access(ins, 1, m == "ldr")
        elif m == "mrs":
            regs, _ = self._split(ins)
            if len(regs) != 2 or regs[1] != "nzcv":
                self.unsupported(ins)
            self.regs[self._x(ins, regs[0])] = self.flags & 0xF0000000
        elif m == "msr":
            regs, _ = self._split(ins)
            if len(regs) != 2 or regs[0] != "nzcv":
                self.unsupported(ins)
            self.flags = self.regs[self._x(ins, regs[1])] & 0xF0000000
        elif m in ("mov", "movz", "movn", "movk"):
            if ins.sym:
                self.unsupported(ins, "(symbolic immediate)")
            parts, _ = self._split(ins)
            rd = self._x(ins, parts[0])
            if not parts[1].startswith("#"):
                self.unsupported(ins, "(register move)")
            imm = _int(parts[1][1:])
            shift = 0
            if len(parts) == 3:
                mm = re.match(r"^lsl #(\d+)$", parts[2])
                if not mm:
                    self.unsupported(ins)
                shift = int(mm.group(1))
            elif len(parts) != 2:
                self.unsupported(ins)
            if m == "mov":
                if shift:
                    self.unsupported(ins)
                self.regs[rd] = imm & M64
            elif m == "movz":
                self.regs[rd] = (imm << shift) & M64
            elif m == "movn":
                self.regs[rd] = ~(imm << shift) & M64
            else:
                self.regs[rd] = (self.regs[rd] & ~(0xFFFF << shift) & M64) | ((imm & 0xFFFF) << shift)
        elif m == "adrp":
            parts, _ = self._split(ins)
            rd = self._x(ins, parts[0])
            v = self.sym_value(ins, 0)
            if v is None:
                self.unsupported(ins, "(adrp without symbol)")
            self.regs[rd] = v & ~0xFFF & M64
        elif m in ("add", "sub"):
            parts, _ = self._split(ins)
            if len(parts) != 3 or not parts[2].startswith("#"):
                self.unsupported(ins)
            rd = "sp" if parts[0] == "sp" else self._x(ins, parts[0])
            rn = "sp" if parts[1] == "sp" else self._x(ins, parts[1])
            imm = _int(parts[2][1:])
            v = self.sym_value(ins, 0)
            if v is not None:
                attrs = ins.sym[0][2]
                if m != "add" or "LO12" not in attrs:
                    self.unsupported(ins, f"(symbolic add without lo12: {attrs})")
                imm = v & 0xFFF
            a = self.regs[rn]
            self.regs[rd] = (a + imm if m == "add" else a - imm) & M64
        elif m == "bl":
            ent = ins.sym.get(0)
            if ent is None or ent[1] != 0:
                self.unsupported(ins, "(only bl to a symbol)")
            ret = (self.base + ins.off + 4) & M64
            self.regs["x30"] = ret
            return ("call", ent[0], ret)
        elif m == "nop":
            pass
        else:
            self.unsupported(ins)
        return None

    def ret(self, extra):
        self.sp = self.sp + extra
        return self.regs["x30"]


class SPAlignmentFault(Exception):
    def __init__(self, text, sp):
        super().__init__(f"SP alignment fault at '{text}' sp={sp:#x}")
        self.text = text
        self.sp = sp


# --------------------------------------------------------------------------
# MIPS32 big endian

_MIPS_MEM = re.compile(r"^\$(\w+), (-?(?:0x)?[0-9a-f]+)?\(\$(\w+)\)$")
_MIPS_NAMES = (
    ["zero", "at", "v0", "v1", "a0", "a1", "a2", "a3"]
    + [f"t{i}" for i in range(8)]
    + [f"s{i}" for i in range(8)]
    + ["t8", "t9", "k0", "k1", "gp", "sp", "fp", "ra"]
)
_MIPS_ALIAS = {"s8": "fp"}
for _i, _n in enumerate(_MIPS_NAMES):
    _MIPS_ALIAS[str(_i)] = _n


class MipsCPU(CPU):
    width = 4
    little = False
    sp_name = "sp"

    def __init__(self, mem, code, base, link, symaddr):
        super().__init__(mem, code, base, link, symaddr)
        for n in _MIPS_NAMES:
            self.regs[n] = 0

    def _make_cs(self):
        return capstone.Cs(capstone.CS_ARCH_MIPS, capstone.CS_MODE_MIPS32 | capstone.CS_MODE_BIG_ENDIAN)

    def _r(self, ins, name):
        name = _MIPS_ALIAS.get(name, name)
        if name not in self.regs:
            self.unsupported(ins, f"(register {name})")
        return name

    def _set(self, name, v):
        if name != "zero":
            self.regs[name] = v & M32

    def execute(self, ins):
        m = ins.mnemonic
        if ins.sym:
            self.unsupported(ins, "(symbolic operand)")
        if m == "addiu":
            parts = [p.strip() for p in ins.op_str.split(",")]
            if len(parts) != 3 or not parts[0].startswith("$") or not parts[1].startswith("$"):
                self.unsupported(ins)
            rd = self._r(ins, parts[0][1:])
            rs = self._r(ins, parts[1][1:])
            self._set(rd, self.regs[rs] + _int(parts[2]))
        elif m in ("sw", "lw"):
            mm = _MIPS_MEM.match(ins.op_str)
            if not mm:
                self.unsupported(ins)
            rt = self._r(ins, mm.group(1))
            off = _int(mm.group(2)) if mm.group(2) else 0
            base = self._r(ins, mm.group(3))
            addr = (self.regs[base] + off) & M32
            if addr & 3:
                raise core.HarnessError(f"machsim cpu: unaligned {m} at {addr:#x}")
            if m == "sw":
                self.mem.write(addr, 4, self.regs[rt], "code")
            else:
                self._set(rt, self.mem.read(addr, 4, "code"))
        elif m == "nop":
            pass
        else:
            self.unsupported(ins)
        return None


def make_cpu(kind, mem, code, base, link, symaddr):
    if kind == "x64":
        return X86CPU(mem, code, base, link, symaddr, 64)
    if kind == "ia32":
        return X86CPU(mem, code, base, link, symaddr, 32)
    if kind == "arm64":
        return A64CPU(mem, code, base, link, symaddr)
    if kind == "mips32":
        return MipsCPU(mem, code, base, link, symaddr)
    raise core.HarnessError(f"unknown cpu {kind}")
