"""Process-pool runner: 16 worker interpreters started with subprocess so
that PYTHONHASHSEED is part of the schedule.  Worker w runs under hash seed
(w mod H); a run is only given to a worker of the hash-seed class its sigma
asks for, so results are independent of the worker count."""

import json
import os
import queue
import subprocess
import threading
import time

from . import core


class Worker:
    def __init__(self, hashseed: int, task_cap: float):
        env = dict(os.environ)
        env["PYTHONHASHSEED"] = str(hashseed)
        env["VERIF_TASK_CAP"] = str(task_cap)
        env.setdefault("PYTHONDONTWRITEBYTECODE", "1")
        self.hashseed = hashseed
        self.err_path = None
        self.proc = subprocess.Popen(
            [core.PYTHON, "-X", "faulthandler", os.path.join(core.VERIF_ROOT, "sim", "worker.py")],
            stdin=subprocess.PIPE,
            stdout=subprocess.PIPE,
            stderr=subprocess.PIPE,
            env=env,
            text=True,
            bufsize=1,
            cwd=core.VERIF_ROOT,
        )
        self.stderr_tail = []
        self._t = threading.Thread(target=self._drain, daemon=True)
        self._t.start()

    def _drain(self):
        for line in self.proc.stderr:
            self.stderr_tail.append(line)
            if len(self.stderr_tail) > 200:
                del self.stderr_tail[:100]

    def call(self, task):
        self.proc.stdin.write(json.dumps(task, default=str) + "\n")
        self.proc.stdin.flush()
        line = self.proc.stdout.readline()
        if not line:
            self.proc.wait(timeout=10)
            return {
                "id": task["id"],
                "result": {
                    "verdict": core.Verdict.HARNESS,
                    "error": f"worker died (exit {self.proc.returncode})",
                    "trace": "".join(self.stderr_tail[-60:]),
                },
            }
        return json.loads(line)

    def close(self):
        try:
            if self.proc.poll() is None:
                self.proc.stdin.write('{"op":"quit"}\n')
                self.proc.stdin.flush()
                self.proc.stdin.close()
                self.proc.wait(timeout=5)
        except Exception:
            pass
        if self.proc.poll() is None:
            self.proc.kill()


class Pool:
    def __init__(self, nworkers=None, task_cap=120.0):
        if nworkers is None:
            nworkers = int(os.environ.get("VERIF_WORKERS", "16"))
        nworkers = max(core.HASHSEED_CLASSES, nworkers)
        self.task_cap = task_cap
        self.workers = [
            Worker(i % core.HASHSEED_CLASSES, task_cap) for i in range(nworkers)
        ]

    def close(self):
        for w in self.workers:
            w.close()

    def __enter__(self):
        return self

    def __exit__(self, *a):
        self.close()

    def map(self, tasks, on_result=None, deadline=None, stop_flag=None):
        """Run tasks (dicts with 'id' and 'hashseed').  Returns dict id ->
        answer.  Tasks not started before the deadline are left out."""
        queues = {h: queue.Queue() for h in range(core.HASHSEED_CLASSES)}
        for t in tasks:
            queues[t["hashseed"] % core.HASHSEED_CLASSES].put(t)
        answers = {}
        lock = threading.Lock()

        def loop(w: Worker):
            q = queues[w.hashseed]
            while True:
                if deadline is not None and time.time() > deadline:
                    return
                if stop_flag is not None and stop_flag.is_set():
                    return
                try:
                    t = q.get_nowait()
                except queue.Empty:
                    return
                if w.proc.poll() is not None:
                    # replace a dead worker
                    w.__init__(w.hashseed, self.task_cap)
                a = w.call(t)
                with lock:
                    answers[t["id"]] = a
                    if on_result:
                        on_result(t, a)

        threads = [threading.Thread(target=loop, args=(w,)) for w in self.workers]
        for th in threads:
            th.start()
        for th in threads:
            th.join()
        return answers

    def call_one(self, task):
        """Run a single task synchronously on a worker of its class."""
        for w in self.workers:
            if w.hashseed == task["hashseed"] % core.HASHSEED_CLASSES:
                if w.proc.poll() is not None:
                    w.__init__(w.hashseed, self.task_cap)
                return w.call(task)
        raise core.HarnessError("no worker for hashseed")

    def call_many(self, tasks):
        """Run a handful of tasks in parallel; returns answers in order."""
        for i, t in enumerate(tasks):
            t["id"] = i
        ans = self.map(tasks)
        return [ans.get(i) for i in range(len(tasks))]
