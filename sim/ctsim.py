"""ctsim engine (C20): container state machines vs trivial reference models.

One scenario = one machine kind + setup + a list of <= 40 ops (pure JSON,
everything referred to by small integer indices).  The reference model is
stepped next to the real container and compared after EVERY operation.

Machines: refcache (ReferenceCache over a real gtirb module), retcache
(ReturnEdgeCache / make_return_cache), ordering (BlockOrdering), linkedlist
(LinkedListNode), offsetmap (OffsetMapping), idset (IdentitySet).

An op the model calls illegal (forbidden by a docstring / assert of the
library, or not meaningful in the current state) is *skipped* by the driver,
so every sub-sequence of a scenario is a valid scenario (shrinking).
"""

import collections
import copy
import operator
import re
import uuid as _uuid

from . import core

MAX_OPS = 40
MACHINE_WEIGHTS = {
    "refcache": 34,
    "retcache": 26,
    "ordering": 8,
    "linkedlist": 5,
    "offsetmap": 15,
    "idset": 12,
}

# --------------------------------------------------------------------------
# seam: RefNode (dataclass(eq=False)) hashes by memory address, so the
# iteration order of RefNode.children would depend on the allocation history
# of the worker process.  Give every RefNode a serial number at its first
# hash and hash that (salted), so that the order is a function of sigma.

_RN = {"n": 0, "salt": 0, "installed": False}


def _refnode_hash(self):
    s = self.__dict__.get("_ctsim_serial")
    if s is None:
        _RN["n"] += 1
        s = self.__dict__["_ctsim_serial"] = _RN["n"]
    return hash(((s ^ _RN["salt"]) * core._MULT) & core._MASK)


def _install_refnode_seam():
    if _RN["installed"]:
        return
    from gtirb_rewriting._modify import cache as cache_mod

    cache_mod.RefNode.__hash__ = _refnode_hash
    _RN["installed"] = True


class Injected(Exception):
    """The exception the simulated body raises inside a context."""

    def __init__(self, levels=1):
        super().__init__("injected")
        self.levels = levels


def _exc_str(e):
    msg = re.sub(r"0x[0-9a-fA-F]+", "<hex>", str(e))
    return f"{type(e).__name__}: {msg[:160]}"


# --------------------------------------------------------------------------
# common driver base


class _Base:
    machine = ""

    def __init__(self, prop, scenario, stats):
        self.prop = prop
        self.sc = scenario
        self.setup = scenario["setup"]
        self.ops = scenario["ops"]
        self.stats = stats
        self.pending = None
        self.step = -1
        self.cur = None
        self.kinds = []
        self.ctx = None
        self.mutations = 0

    def count(self, name, n=1):
        self.stats[name] += n

    def fail(self, vclass, witness, kind=None, got=None):
        sig = {"machine": self.machine, "op": kind or (self.cur or {}).get("k", "?")}
        if self.ctx:
            sig["ctx"] = self.ctx
        if got:
            sig["got"] = got  # wrong-error: type of the unexpected exception
        w = {"step": self.step, "op": self.cur}
        w.update(witness)
        v = core.Violation(self.prop, vclass, w, sig)
        self.pending = v
        raise v

    @staticmethod
    def lib(fn, *a, **kw):
        """Call into the library; (True, value) or (False, exception)."""
        try:
            return True, fn(*a, **kw)
        except Exception as e:  # noqa: BLE001 - classified by the caller
            return False, e

    def expect(self, ok, val, errs=None, what=""):
        """errs: None (no error expected) or tuple of acceptable exception
        type names."""
        if errs is None:
            if not ok:
                self.fail("wrong-error", {"what": what, "expected": "no error", "got": _exc_str(val)}, got=type(val).__name__)
        elif ok:
            self.fail("wrong-error", {"what": what, "expected": list(errs), "got": "no error"}, got="no-error")
        elif not any(t.__name__ in errs for t in type(val).__mro__):
            self.fail("wrong-error", {"what": what, "expected": list(errs), "got": _exc_str(val)}, got=type(val).__name__)

    def begin(self, i, op):
        self.step = i
        self.cur = op
        self.kinds.append(op["k"])
        self.count(f"op.{self.machine}.{op['k']}")
        self.count("ops")

    def skip(self, op):
        self.count(f"skipped.{self.machine}")

    def run(self):
        try:
            self._run()
        except core.Violation:
            raise
        except BaseException:
            if self.pending is not None:
                raise self.pending from None
            raise


# ==========================================================================
# 1. ReferenceCache
# ==========================================================================

REF_MAX_SYMS = 8
REF_MAX_BLOCKS = 6


class RefModel:
    """dict symbol -> (block, at_end), plus what the generator must know to
    stay inside the documented preconditions."""

    def __init__(self, setup):
        self.nb = len(setup["blocks"])
        self.ref = [[s["ref"], bool(s["e"])] for s in setup["symbols"]]
        # conservative "known direct" (legality of plain assignment)
        self.direct = [True] * len(self.ref)
        # blocks that may be keys of cache._references (superset)
        self.dirty = set()
        self.open = {}
        self.inside = False
        self.tier = setup.get("interleave", "none")
        self.graph = set()

    def refs(self, b):
        return [i for i, (rb, _) in enumerate(self.ref) if rb == b]

    def openblocks(self):
        return set(self.open.values())

    def _blk(self, b, none_ok=False):
        if b is None:
            return none_ok
        return isinstance(b, int) and 0 <= b < self.nb

    def reaches(self, a, b):
        """is there a retarget path a -> ... -> b since the last apply"""
        seen, work = set(), [a]
        while work:
            x = work.pop()
            if x == b:
                return True
            if x in seen:
                continue
            seen.add(x)
            work.extend(t for (s, t) in self.graph if s == x)
        return False

    def legal(self, op):
        k = op["k"]
        ob = self.openblocks()
        conv = self.tier == "convert"
        if k == "retarget":
            b, to = op["b"], op["to"]
            if not self._blk(b) or not self._blk(to, True):
                return False
            has = bool(self.refs(b))
            if to is None and (has or b in self.dirty):
                return False  # assert to_block
            if ob:
                if conv:
                    if has and (b in ob or to in ob):
                        return False
                elif b in ob or to in ob:
                    return False
            return True
        if k in ("set_referent", "assign"):
            s = op["s"]
            if not (0 <= s < len(self.ref)) or not self._blk(op["to"], True):
                return False
            if k == "assign" and not self.direct[s]:
                return False
            if ob and (self.ref[s][0] in ob or op["to"] in ob):
                return False
            return True
        if k == "new_symbol":
            if not self._blk(op["to"], True):
                return False
            return len(self.ref) < REF_MAX_SYMS and not (ob and op["to"] in ob)
        if k == "get_referent":
            s = op["s"]
            if not (0 <= s < len(self.ref)):
                return False
            if ob and not conv and self.ref[s][0] in ob:
                return False
            return True
        if k == "get_references":
            if not self._blk(op["b"]):
                return False
            return not (ob and not conv and op["b"] in ob)
        if k == "gen_open":
            if not self._blk(op["b"]):
                return False
            if self.tier == "none" or str(op["g"]) in self.open or len(self.open) >= 2:
                return False
            return not (ob and not conv and op["b"] in ob)
        if k in ("gen_next", "gen_close"):
            return str(op["g"]) in self.open
        if k == "apply":
            return not ob or conv
        if k == "enter":
            return not self.inside
        if k in ("exit", "raise"):
            return self.inside and (not ob or conv)
        return False

    def apply(self, op):
        """Step the model.  Returns True if the model's referents changed."""
        k = op["k"]
        if k == "retarget":
            b, to, e = op["b"], op["to"], bool(op["e"])
            rs = self.refs(b)
            entered = bool(rs) or b in self.dirty
            self.dirty.discard(b)
            if entered and to is not None:
                self.dirty.add(to)
            changed = False
            for s in rs:
                changed = changed or self.ref[s] != [to, e]
                self.ref[s] = [to, e]
                self.direct[s] = False
            if rs:
                self.graph.add((b, to))
            return changed
        if k in ("set_referent", "assign"):
            s = op["s"]
            changed = self.ref[s] != [op["to"], bool(op["e"])]
            self.ref[s] = [op["to"], bool(op["e"])]
            self.direct[s] = True
            return changed
        if k == "new_symbol":
            self.ref.append([op["to"], bool(op["e"])])
            self.direct.append(True)
            return True
        if k == "get_referent":
            self.direct[op["s"]] = True
        elif k == "get_references":
            if op.get("take") is None:
                for s in self.refs(op["b"]):
                    self.direct[s] = True
                self.dirty.discard(op["b"])
        elif k == "gen_open":
            self.open[str(op["g"])] = op["b"]
        elif k == "gen_close":
            del self.open[str(op["g"])]
        elif k in ("apply", "exit", "raise"):
            self.direct = [True] * len(self.ref)
            self.dirty.clear()
            self.graph.clear()
            if k != "apply":
                self.inside = False
        elif k == "enter":
            self.inside = True
        return False


class RefDriver(_Base):
    machine = "refcache"

    def build(self):
        import gtirb
        from gtirb_rewriting._modify import cache as cache_mod

        self.cache_mod = cache_mod
        self.gtirb = gtirb
        ir = gtirb.IR()
        m = gtirb.Module(name="m", isa=gtirb.Module.ISA.X64, file_format=gtirb.Module.FileFormat.ELF, ir=ir)
        sec = gtirb.Section(name=".text", module=m)
        bi = gtirb.ByteInterval(address=0x1000, size=16, contents=bytes(16), section=sec)
        self.module = m
        self.blocks = []
        for i, kind in enumerate(self.setup["blocks"]):
            if kind == "code":
                b = gtirb.CodeBlock(offset=i, size=1, byte_interval=bi)
            elif kind == "data":
                b = gtirb.DataBlock(offset=i, size=1, byte_interval=bi)
            else:
                b = gtirb.ProxyBlock(module=m)
            self.blocks.append(b)
        self.bidx = {id(b): i for i, b in enumerate(self.blocks)}
        self.syms = []
        self.sidx = {}
        for s in self.setup["symbols"]:
            self._mksym(s["ref"], bool(s["e"]), "ctor")
        self.cache = cache_mod.ReferenceCache()
        self.model = RefModel(self.setup)
        # oracle-side knowledge of which symbols must be direct
        self.must_direct = [True] * len(self.syms)
        self.gens = {}
        self.inside = False

    def _mksym(self, ref, e, how):
        gtirb = self.gtirb
        blk = None if ref is None else self.blocks[ref]
        name = f"s{len(self.syms)}"
        if how == "ctor":
            sym = gtirb.Symbol(name, payload=blk, at_end=e, module=self.module)
        elif how == "assign_then_add":
            sym = gtirb.Symbol(name)
            sym.referent = blk
            sym.at_end = e
            sym.module = self.module
        else:
            sym = gtirb.Symbol(name, module=self.module)
            sym.referent = blk
            sym.at_end = e
        self.sidx[id(sym)] = len(self.syms)
        self.syms.append(sym)
        return sym

    def bname(self, blk):
        if blk is None:
            return None
        return self.bidx.get(id(blk), "foreign-block")

    # -- read-only walk of the cache internals -------------------------------

    def effective(self, si):
        """(block index | None | 'orphan-root' | 'cycle', at_end, is_direct, hops)"""
        sym = self.syms[si]
        c = self.cache
        RefNode = self.cache_mod.RefNode
        node = c._referents.get(sym)
        if node is None:
            return self.bname(sym.referent), bool(sym.at_end), True, 0
        hops = 0
        n = node
        while isinstance(n.parent, RefNode):
            n = n.parent
            hops += 1
            if hops > 64:
                return "cycle", False, False, hops
        blk = n.parent
        pair = c._references.get(blk)
        if pair is None or (n is not pair[0] and n is not pair[1]):
            return "orphan-root", False, False, hops
        if sym not in node.symbols:
            return "symbol-not-in-its-node", False, False, hops
        return self.bname(blk), n is pair[1], False, hops

    def downward(self):
        """{(block index, at_end): sorted symbol indices reachable from the
        block's root RefNodes through children}"""
        out = {}
        for blk, pair in self.cache._references.items():
            for which, root in enumerate(pair):
                seen = set()
                found = []
                work = [root]
                while work:
                    n = work.pop()
                    if id(n) in seen:
                        continue
                    seen.add(id(n))
                    for s in n.symbols:
                        found.append(self.sidx.get(id(s), -1))
                    work.extend(n.children)
                if found:
                    out[(self.bname(blk), bool(which))] = sorted(found)
        return out

    def check_all(self, queried=()):
        m = self.model
        indirect = collections.defaultdict(list)
        for si in range(len(self.syms)):
            blk, e, direct, hops = self.effective(si)
            want_b, want_e = m.ref[si]
            if hops >= 2:
                self.count("probe.chain_depth_ge3")
            if self.must_direct[si] and not direct:
                self.fail(
                    "not-direct-after-query",
                    {"symbol": si, "expected": [want_b, want_e], "got": "still indirect", "walk": [blk, e]},
                )
            if blk != want_b or (want_b is not None and e != want_e):
                vclass = "not-direct-after-query" if (si in queried and direct) else "referent-diff"
                self.fail(vclass, {"symbol": si, "expected": [want_b, want_e], "got": [blk, e], "direct": direct})
            if not direct:
                indirect[(blk, e)].append(si)
        down = self.downward()
        want = {k: sorted(v) for k, v in indirect.items()}
        if down != want:
            self.fail(
                "references-diff",
                {
                    "what": "symbols reachable downward from the root RefNodes != symbols whose parent walk ends there",
                    "downward": sorted([list(k), v] for k, v in down.items()),
                    "upward": sorted([list(k), v] for k, v in want.items()),
                },
            )

    def check_all_direct(self, what):
        if self.cache._referents:
            left = sorted(self.sidx.get(id(s), -1) for s in self.cache._referents)
            self.fail("referent-diff", {"what": what, "still_indirect": left})
        if self.cache._references:
            # apply(): "Convert all indirect references to direct, clearing the cache."
            left = sorted(str(self.bname(b)) for b in self.cache._references)
            self.fail("referent-diff", {"what": what + ": the cache was not cleared", "blocks_left": left})
        for si, sym in enumerate(self.syms):
            want_b, want_e = self.model.ref[si]
            got_b = self.bname(sym.referent)
            if got_b != want_b or (want_b is not None and bool(sym.at_end) != want_e):
                self.fail("referent-diff", {"what": what, "symbol": si, "expected": [want_b, want_e], "got": [got_b, bool(sym.at_end)]})
        # block.references must be the model's sets
        for bi_, blk in enumerate(self.blocks):
            got = sorted(self.sidx.get(id(s), -1) for s in blk.references)
            if got != self.model.refs(bi_):
                self.fail("references-diff", {"what": what, "block": bi_, "expected": self.model.refs(bi_), "got": got})

    # -- generator consumption -----------------------------------------------

    def pull(self, g, b, got, n):
        """Pull up to n (None = all) symbols; returns True when exhausted.
        Every yielded symbol is checked at the moment it is yielded."""
        blk = self.blocks[b]
        pulled = 0
        while n is None or pulled < n:
            try:
                sym = next(g)
            except StopIteration:
                return True
            except Exception as e:  # noqa: BLE001
                self.fail("wrong-error", {"what": "get_references generator", "expected": "no error", "got": _exc_str(e), "yielded": list(got)}, got=type(e).__name__)
            pulled += 1
            si = self.sidx.get(id(sym))
            if si is None:
                self.fail("references-diff", {"what": "yielded an unknown symbol", "block": b})
            want_b, want_e = self.model.ref[si]
            if want_b != b:
                self.fail("references-diff", {"what": "yielded a symbol that does not refer to the block", "block": b, "symbol": si, "model": [want_b, want_e]})
            if si in got:
                self.fail("references-diff", {"what": "symbol yielded twice", "block": b, "symbol": si, "yielded": list(got)})
            got.append(si)
            if sym in self.cache._referents or sym.referent is not blk or bool(sym.at_end) != want_e:
                self.fail(
                    "not-direct-after-query",
                    {"symbol": si, "expected": [b, want_e], "got": [self.bname(sym.referent), bool(sym.at_end)], "in_referents": sym in self.cache._referents},
                )
            self.must_direct[si] = True
        return False

    def finish(self, b, got, exhausted):
        want = self.model.refs(b)
        if exhausted:
            if sorted(got) != want:
                self.fail("references-diff", {"block": b, "expected": want, "got": sorted(got)})
            self.model.dirty.discard(b)
        elif len(got) < len(want):
            self.count("probe.generator_abandoned")

    # -- ops -------------------------------------------------------------------

    def mark_indirect(self, b):
        for s in self.model.refs(b):
            self.must_direct[s] = False

    def do(self, op):
        k = op["k"]
        c = self.cache
        m = self.model
        queried = ()
        if k == "retarget":
            b, to = op["b"], op["to"]
            rs = m.refs(b)
            if not rs:
                self.count("probe.retarget_noop")
            else:
                if to == b:
                    self.count("probe.retarget_self")
                elif m.reaches(to, b):
                    self.count("probe.retarget_cycle")
                if (b, to) in m.graph:
                    self.count("probe.retarget_same_target_twice")
                if any(m.ref[s][1] != bool(op["e"]) for s in rs):
                    self.count("probe.at_end_flip")
            if to is None:
                self.count("probe.retarget_to_none")
            self.mark_indirect(b)
            ok, val = self.lib(c.retarget_references, self.blocks[b], None if to is None else self.blocks[to], bool(op["e"]))
            self.expect(ok, val, None, "retarget_references")
            if m.apply(op):
                self.mutations += 1
        elif k == "get_referent":
            s = op["s"]
            if self.syms[s] in c._referents:
                self.count("probe.get_referent_indirect")
            ok, val = self.lib(c.get_referent, self.syms[s])
            self.expect(ok, val, None, "get_referent")
            m.apply(op)
            self.must_direct[s] = True
            want_b = m.ref[s][0]
            if self.bname(val) != want_b:
                self.fail("referent-diff", {"symbol": s, "expected": want_b, "got": self.bname(val), "what": "return value"})
            queried = (s,)
        elif k == "set_referent":
            s = op["s"]
            if self.syms[s] in c._referents:
                self.count("probe.set_referent_indirect")
            to = None if op["to"] is None else self.blocks[op["to"]]
            ok, val = self.lib(c.set_referent, self.syms[s], to, bool(op["e"]))
            self.expect(ok, val, None, "set_referent")
            if m.apply(op):
                self.mutations += 1
            self.must_direct[s] = True
            queried = (s,)
        elif k == "assign":
            s = op["s"]
            sym = self.syms[s]
            sym.referent = None if op["to"] is None else self.blocks[op["to"]]
            sym.at_end = bool(op["e"])
            if m.apply(op):
                self.mutations += 1
        elif k == "new_symbol":
            self._mksym(op["to"], bool(op["e"]), op.get("how", "ctor"))
            m.apply(op)
            self.must_direct.append(True)
            self.mutations += 1
        elif k == "get_references":
            b = op["b"]
            direct_n = sum(1 for _ in self.blocks[b].references)
            if direct_n and len(m.refs(b)) > direct_n:
                self.count("probe.mixed_direct_indirect_refs")
            g = c.get_references(self.blocks[b])
            got = []
            exhausted = self.pull(g, b, got, op.get("take"))
            ok, val = self.lib(g.close)
            self.expect(ok, val, None, "generator close")
            if op.get("take") is None and not exhausted:
                raise core.HarnessError("full consumption did not exhaust")
            self.finish(b, got, exhausted)
            m.apply(op)
            queried = tuple(got)
        elif k == "gen_open":
            self.gens[str(op["g"])] = {"g": c.get_references(self.blocks[op["b"]]), "b": op["b"], "got": [], "done": False}
            m.apply(op)
            self.count("probe.generator_opened")
        elif k == "gen_next":
            st = self.gens[str(op["g"])]
            if not st["done"]:
                st["done"] = self.pull(st["g"], st["b"], st["got"], op.get("n"))
                if st["done"]:
                    self.finish(st["b"], st["got"], True)
                    self.count("probe.interleaved_generator_exhausted")
            queried = tuple(st["got"])
        elif k == "gen_close":
            st = self.gens.pop(str(op["g"]))
            ok, val = self.lib(st["g"].close)
            self.expect(ok, val, None, "generator close")
            if not st["done"]:
                self.finish(st["b"], st["got"], False)
            m.apply(op)
        elif k == "apply":
            ok, val = self.lib(c.apply)
            self.expect(ok, val, None, "apply")
            m.apply(op)
            self.must_direct = [True] * len(self.syms)
            self.check_all_direct("after apply")
        else:
            raise core.HarnessError(f"unknown op {k}")
        self.check_all(queried)

    def loop(self):
        """Run ops until the list ends or the current context is left."""
        while self.pc < len(self.ops):
            i = self.pc
            op = self.ops[i]
            self.pc += 1
            if not self.model.legal(op):
                self.skip(op)
                continue
            self.begin(i, op)
            k = op["k"]
            if self.model.open and (k not in ("gen_next", "gen_close") or len(self.model.open) > 1):
                # something else runs while a get_references generator is suspended
                self.ctx = "interleaved-" + self.model.tier
                self.count("probe.op_while_generator_suspended")
            if k == "enter":
                self.model.apply(op)
                self.context()
            elif k == "exit":
                return "exit"
            elif k == "raise":
                self.count("fault.exception_in_context")
                self.count("probe.exception_in_context")
                self.injected = Injected()
                raise self.injected
            else:
                self.do(op)
        return "end"

    def context(self):
        self.injected = None
        out = None
        try:
            with self.cache:
                self.loop()
        except Injected as e:
            out = e
        except core.Violation:
            raise
        except Exception as e:  # noqa: BLE001
            if self.pending is not None:
                raise self.pending from None
            self.cur = {"k": "raise" if self.injected is not None else "exit"}
            self.fail("wrong-error", {"what": "leaving the ReferenceCache context", "expected": "no error", "got": _exc_str(e)}, got=type(e).__name__)
        if self.injected is not None and out is not self.injected:
            self.fail("wrong-error", {"what": "the body's exception did not propagate out of the context"}, kind="raise")
        self.model.apply({"k": "exit"})
        self.must_direct = [True] * len(self.syms)
        self.cur = {"k": "raise" if self.injected is not None else "exit"}
        self.check_all_direct("after leaving the context" + (" by exception" if self.injected is not None else ""))
        self.check_all()
        self.count("probe.context_left")

    def _run(self):
        self.build()
        self.pc = 0
        self.check_all()
        self.loop()
        # end of history: abandon open generators, apply, everything direct
        for slot in sorted(self.gens):
            st = self.gens.pop(slot)
            st["g"].close()
            self.model.apply({"k": "gen_close", "g": slot})
        self.step = len(self.ops)
        self.cur = {"k": "final_apply"}
        ok, val = self.lib(self.cache.apply)
        self.expect(ok, val, None, "final apply")
        self.model.apply({"k": "apply"})
        self.must_direct = [True] * len(self.syms)
        self.check_all_direct("after final apply")


def _gen_refcache(r, params):
    nb = r.randint(2, REF_MAX_BLOCKS)
    kinds = [r.choices(["code", "data", "proxy"], [4, 3, 2])[0] for _ in range(nb)]
    if "proxy" not in kinds and r.random() < 0.7:
        kinds[r.randrange(nb)] = "proxy"
    ns = r.randint(1, 6)
    hot = [r.randrange(nb) for _ in range(r.randint(1, 3))]
    symbols = []
    for _ in range(ns):
        x = r.random()
        ref = None if x < 0.08 else (r.choice(hot) if x < 0.7 else r.randrange(nb))
        symbols.append({"ref": ref, "e": r.random() < 0.35})
    x = r.random()
    p_dis = params.get("interleave_disjoint_p", 0.2)
    p_conv = 0.0 if params.get("_avoid") else params.get("interleave_convert_p", 0.3)
    tier = "convert" if x < p_conv else ("disjoint" if x < p_conv + p_dis else "none")
    setup = {"blocks": kinds, "symbols": symbols, "interleave": tier}
    m = RefModel(setup)
    nops = r.randint(3, params.get("max_ops", MAX_OPS))
    ops = []
    hist = []

    def blk(bias_refs=False):
        if bias_refs and r.random() < 0.8:
            withrefs = [b for b in range(nb) if m.refs(b)]
            if withrefs:
                return r.choice(withrefs)
        return r.randrange(nb)

    def propose():
        x = r.random()
        if m.open and r.random() < 0.35:
            slot = r.choice(sorted(m.open))
            return {"k": "gen_next", "g": int(slot), "n": r.choice([1, 1, 2, None])} if r.random() < 0.7 else {"k": "gen_close", "g": int(slot)}
        if x < 0.36:
            y = r.random()
            if hist and y < 0.3:
                b0, t0 = r.choice(hist)
                b, to = t0, b0
            elif y < 0.38:
                b = blk(True)
                to = b
            else:
                b, to = blk(True), r.randrange(nb)
            if r.random() < 0.05:
                to = None
            return {"k": "retarget", "b": b, "to": to, "e": r.random() < 0.4}
        if x < 0.50:
            return {"k": "get_references", "b": blk(r.random() < 0.7), "take": r.choice([None, None, None, 0, 1, 1, 2])}
        if x < 0.63:
            return {"k": "get_referent", "s": r.randrange(len(m.ref))}
        if x < 0.71:
            return {"k": "set_referent", "s": r.randrange(len(m.ref)), "to": None if r.random() < 0.15 else r.randrange(nb), "e": r.random() < 0.4}
        if x < 0.75:
            ds = [i for i, d in enumerate(m.direct) if d]
            if ds:
                return {"k": "assign", "s": r.choice(ds), "to": None if r.random() < 0.1 else r.randrange(nb), "e": r.random() < 0.4}
        if x < 0.78:
            return {"k": "new_symbol", "to": None if r.random() < 0.1 else r.randrange(nb), "e": r.random() < 0.4, "how": r.choice(["ctor", "assign_then_add", "add_then_assign"])}
        if x < 0.82:
            return {"k": "apply"}
        if x < 0.90:
            if not m.inside:
                return {"k": "enter"}
            return {"k": "exit"} if r.random() < 0.55 else {"k": "raise"}
        if m.tier != "none":
            return {"k": "gen_open", "b": blk(True), "g": r.randrange(2)}
        return {"k": "get_referent", "s": r.randrange(len(m.ref))}

    tries = 0
    while len(ops) < nops and tries < nops * 4:
        tries += 1
        op = propose()
        if not m.legal(op):
            continue
        if op["k"] == "retarget" and m.refs(op["b"]) and op["to"] is not None:
            hist.append((op["b"], op["to"]))
        m.apply(op)
        ops.append(op)
    return setup, ops


# ==========================================================================
# 2. ReturnEdgeCache / make_return_cache
# ==========================================================================

RET_LABELS = [
    None,
    ["Return", False, True],
    ["Return", False, False],
    ["Return", True, True],
    ["Call", False, True],
    ["Branch", True, True],
    ["Branch", False, False],
    ["Fallthrough", False, True],
    ["Sysret", False, True],
    ["Syscall", False, True],
]
RET_SET_OPS = ("add", "discard", "remove", "pop", "clear", "update", "ior", "isub", "iand", "ixor")
RET_CTX_OPS = RET_SET_OPS + ("contains", "query", "exit", "raise", "orig_add", "orig_discard", "orig_clear", "rebind")
RET_MAX_DEPTH = 3


class RetModel:
    def __init__(self, setup):
        self.nn = len(setup["nodes"])
        self.labels = setup["labels"]
        self.kinds = setup["nodes"]
        self.edges = set(tuple(e) for e in setup["edges"])
        self.depth = 0
        self.orig = None
        self.entry = None
        self.bound = "cache"
        self.orig_touched = False
        self.rebound_ever = False

    def _edge(self, e):
        return isinstance(e, (list, tuple)) and len(e) == 3 and 0 <= e[0] < self.nn and 0 <= e[1] < self.nn and 0 <= e[2] < len(self.labels)

    def legal(self, op):
        k = op["k"]
        if k == "enter":
            return self.depth == 0 or (self.depth < RET_MAX_DEPTH and self.bound == "cache")
        if k not in RET_CTX_OPS or self.depth < 1:
            return False
        if "e" in op and not self._edge(op["e"]):
            return False
        if "es" in op and not all(self._edge(e) for e in op["es"]):
            return False
        return True

    def is_return(self, e):
        lab = self.labels[e[2]]
        return lab is not None and lab[0] == "Return"

    def scan(self, n):
        r = {e for e in self.edges if e[0] == n and self.is_return(e)}
        pr = {e for e in r if self.kinds[e[1]] == "proxy"}
        return r, pr

    def operand(self, op):
        if op.get("form") == "self":
            return set(self.edges)
        return set(tuple(e) for e in op["es"])

    def apply(self, op):
        """Returns the expected error type names (or None)."""
        k = op["k"]
        if k == "enter":
            self.depth += 1
            if self.depth == 1:
                self.orig = set(self.edges)
                self.entry = set(self.edges)
                self.bound = "cache"
                self.orig_touched = False
                self.rebound_ever = False
        elif k == "add":
            self.edges.add(tuple(op["e"]))
        elif k == "discard":
            self.edges.discard(tuple(op["e"]))
        elif k == "remove":
            if tuple(op["e"]) not in self.edges:
                return ("KeyError",)
            self.edges.discard(tuple(op["e"]))
        elif k == "pop":
            if not self.edges:
                return ("KeyError",)
        elif k == "clear":
            self.edges.clear()
        elif k in ("update", "ior"):
            self.edges |= self.operand(op)
        elif k == "isub":
            self.edges -= self.operand(op)
        elif k == "iand":
            self.edges &= self.operand(op)
        elif k == "ixor":
            self.edges ^= self.operand(op)
        elif k == "orig_add":
            self.orig.add(tuple(op["e"]))
            self.orig_touched = True
        elif k == "orig_discard":
            self.orig.discard(tuple(op["e"]))
            self.orig_touched = True
        elif k == "orig_clear":
            self.orig.clear()
            self.orig_touched = True
        elif k == "rebind":
            self.bound = op["to"]
            if op["to"] != "cache":
                self.rebound_ever = True
        return None

    def leave(self, levels):
        """Leave `levels` contexts; True if the outermost one was left."""
        self.depth = max(0, self.depth - levels)
        return self.depth == 0


class RetDriver(_Base):
    machine = "retcache"

    def build(self):
        import gtirb
        from gtirb_rewriting._modify import cache as cache_mod

        self.gtirb = gtirb
        self.cache_mod = cache_mod
        self.ir = gtirb.IR()
        self.nodes = [gtirb.ProxyBlock() if kind == "proxy" else gtirb.CodeBlock() for kind in self.setup["nodes"]]
        self.nidx = {id(n): i for i, n in enumerate(self.nodes)}
        self.labels = []
        for lab in self.setup["labels"]:
            self.labels.append(None if lab is None else gtirb.Edge.Label(getattr(gtirb.Edge.Type, lab[0]), bool(lab[1]), bool(lab[2])))
        self.lidx = {lab: i for i, lab in enumerate(self.labels)}
        self.model = RetModel(self.setup)
        self.orig = self.ir.cfg
        for e in self.setup["edges"]:
            self.orig.add(self.edge(e))
        self.cache = None
        self.pc = 0

    def edge(self, e):
        return self.gtirb.Edge(self.nodes[e[0]], self.nodes[e[1]], self.labels[e[2]])

    def unedge(self, edge):
        try:
            return (self.nidx[id(edge.source)], self.nidx[id(edge.target)], self.lidx[edge.label])
        except (KeyError, AttributeError, TypeError):
            return ("foreign", repr(edge)[:60], 0)

    def unset(self, edges):
        return sorted(self.unedge(e) for e in edges)

    def operand(self, op):
        form = op.get("form", "list")
        if form == "self":
            return self.cache
        es = [self.edge(e) for e in op["es"]]
        if form == "cfg":
            return self.gtirb.CFG(es)
        if form == "set":
            return set(es)
        if form == "tuple":
            return tuple(es)
        return es

    def check_cache(self):
        c = self.cache
        m = self.model
        ok, got = self.lib(lambda: list(c))
        self.expect(ok, got, None, "iterating the cache")
        gl = self.unset(got)
        want = sorted(m.edges)
        if gl != want or len(c) != len(want):
            self.fail("returncache-diff", {"what": "edge set of the cache", "expected": [list(e) for e in want], "got": [list(e) for e in gl], "len": len(c)})
        for n, node in enumerate(self.nodes):
            r, pr = m.scan(n)
            ok, val = self.lib(lambda: (c.any_return_edges(node), c.block_return_edges(node), c.block_proxy_return_edges(node)))
            self.expect(ok, val, None, "return-edge queries")
            anyr, gr, gpr = val
            if bool(anyr) != bool(r):
                self.fail("returncache-diff", {"what": "any_return_edges", "node": n, "expected": bool(r), "got": bool(anyr)})
            if self.unset(gr) != sorted(r):
                self.fail("returncache-diff", {"what": "block_return_edges", "node": n, "expected": [list(e) for e in sorted(r)], "got": [list(e) for e in self.unset(gr)]})
            if self.unset(gpr) != sorted(pr):
                self.fail("returncache-diff", {"what": "block_proxy_return_edges", "node": n, "expected": [list(e) for e in sorted(pr)], "got": [list(e) for e in self.unset(gpr)]})
            if r:
                self.count("probe.node_with_return_edges")
            if pr and len(pr) < len(r):
                self.count("probe.proxy_and_nonproxy_returns")

    def do(self, op):
        k = op["k"]
        c = self.cache
        m = self.model
        before = set(m.edges)
        if k in RET_SET_OPS:
            errs = m.apply(op)
            if k == "add":
                if tuple(op["e"]) in before:
                    self.count("probe.add_duplicate")
                ok, val = self.lib(c.add, self.edge(op["e"]))
            elif k == "discard":
                if tuple(op["e"]) not in before:
                    self.count("probe.discard_absent")
                ok, val = self.lib(c.discard, self.edge(op["e"]))
            elif k == "remove":
                ok, val = self.lib(c.remove, self.edge(op["e"]))
            elif k == "pop":
                ok, val = self.lib(c.pop)
                if ok and errs is None:
                    e = self.unedge(val)
                    if e not in m.edges:
                        self.fail("returncache-diff", {"what": "pop returned an edge that is not in the set", "got": list(e)})
                    m.edges.discard(e)
            elif k == "clear":
                ok, val = self.lib(c.clear)
            elif k == "update":
                ok, val = self.lib(c.update, self.operand(op))
            else:
                fn = {"ior": operator.ior, "isub": operator.isub, "iand": operator.iand, "ixor": operator.ixor}[k]
                ok, val = self.lib(fn, c, self.operand(op))
                if op.get("form") == "self":
                    self.count("probe.inplace_op_with_self")
            self.expect(ok, val, errs, k)
            if m.edges != before:
                self.mutations += 1
            else:
                self.count("probe.noop_set_op")
        elif k == "contains":
            ok, val = self.lib(lambda: self.edge(op["e"]) in c)
            self.expect(ok, val, None, k)
            if bool(val) != (tuple(op["e"]) in m.edges):
                self.fail("returncache-diff", {"what": "edge in cache", "expected": tuple(op["e"]) in m.edges, "got": bool(val)})
        elif k == "query":
            pass  # the check below queries every node
        elif k == "orig_add":
            self.orig.add(self.edge(op["e"]))
            m.apply(op)
            self.count("fault.orig_cfg_modified")
        elif k == "orig_discard":
            self.orig.discard(self.edge(op["e"]))
            m.apply(op)
            self.count("fault.orig_cfg_modified")
        elif k == "orig_clear":
            self.orig.clear()
            m.apply(op)
            self.count("fault.orig_cfg_modified")
        elif k == "rebind":
            to = op["to"]
            if to == "new":
                self.ir.cfg = self.gtirb.CFG([self.edge(e) for e in sorted(m.edges)])
            elif to == "orig":
                self.ir.cfg = self.orig
            else:
                self.ir.cfg = self.cache
            self.bound_obj = self.ir.cfg
            m.apply(op)
            self.count("fault.ir_cfg_rebound")
        else:
            raise core.HarnessError(f"unknown op {k}")
        self.check_cache()

    def loop(self, depth):
        while self.pc < len(self.ops):
            i = self.pc
            op = self.ops[i]
            self.pc += 1
            if not self.model.legal(op):
                self.skip(op)
                continue
            self.begin(i, op)
            k = op["k"]
            if k == "enter":
                self.model.apply(op)
                self.context(depth + 1)
            elif k == "exit":
                return
            elif k == "raise":
                self.count("fault.exception_in_context")
                self.count("probe.exception_in_context")
                self.injected = Injected(max(1, min(int(op.get("catch", 99)), depth)))
                raise self.injected
            else:
                self.do(op)

    def context(self, depth):
        m = self.model
        self.injected = None
        out = None
        try:
            with self.cache_mod.make_return_cache(self.ir) as c:
                if depth == 1:
                    self.cache = c
                    self.bound_obj = c
                    if not isinstance(c, self.cache_mod.ReturnEdgeCache) or self.ir.cfg is not c:
                        self.fail("returncache-diff", {"what": "ir.cfg is not the yielded ReturnEdgeCache inside the context"})
                else:
                    self.count("probe.nested_context")
                    if c is not self.cache:
                        self.fail("returncache-diff", {"what": "nested make_return_cache did not yield the same cache", "depth": depth})
                self.check_cache()
                self.loop(depth)
        except core.Violation:
            raise
        except BaseException as e:  # noqa: BLE001
            if self.pending is not None:
                raise self.pending from None
            if not isinstance(e, Exception):
                raise
            out = e
        inj = self.injected
        self.cur = {"k": "raise" if inj is not None else "exit", "depth": depth}
        CFGModifiedError = self.cache_mod.CFGModifiedError
        if depth > 1:
            # an inner context never restores or reports anything
            if out is not inj:
                self.fail("wrong-error", {"what": "leaving a nested context", "expected": "the body's exception" if inj else "no error", "got": _exc_str(out) if out else "no error"})
            if self.ir.cfg is not self.bound_obj:
                self.fail("returncache-diff", {"what": "leaving a nested context changed ir.cfg"})
            if inj is not None:
                m.leave(1)
                inj.levels -= 1
                if inj.levels > 0:
                    raise inj
                self.count("probe.exception_caught_between_contexts")
                self.injected = None
            else:
                m.leave(1)
            self.check_cache()
            return
        # outermost context
        net = m.orig != m.entry
        replaced = m.bound != "cache"
        must = net or replaced
        may = m.orig_touched or m.rebound_ever
        if net:
            self.count("probe.orig_net_modified")
        elif m.orig_touched:
            self.count("probe.orig_modified_and_restored")
        if replaced:
            self.count("probe.ir_cfg_replaced_at_exit")
        detail = {"orig_net_modified": net, "ir_cfg_replaced": replaced, "body_raised": inj is not None}
        # restoration is unconditional
        if self.ir.cfg is not self.orig:
            self.fail("cfg-not-restored", dict(detail, what="ir.cfg is not the caller's original CFG object after the context", got=type(self.ir.cfg).__name__))
        got = self.unset(self.orig)
        if got != sorted(m.edges) or len(self.orig) != len(m.edges):
            self.fail("cfg-not-restored", dict(detail, what="edges of the restored CFG", expected=[list(e) for e in sorted(m.edges)], got=[list(e) for e in got]))
        if inj is not None:
            if out is not inj and not (may and isinstance(out, CFGModifiedError)):
                self.fail("wrong-error", dict(detail, what="leaving the context by exception", expected="the body's exception", got=_exc_str(out) if out else "no error"))
        elif must:
            if out is None:
                self.fail("modification-not-reported", detail)
            if not isinstance(out, CFGModifiedError):
                self.fail("wrong-error", dict(detail, expected="CFGModifiedError", got=_exc_str(out)))
            self.count("probe.cfg_modified_error_raised")
        elif out is not None:
            if not (may and isinstance(out, CFGModifiedError)):
                self.fail("wrong-error", dict(detail, what="leaving the context", expected="no error", got=_exc_str(out)))
        m.leave(1)
        m.orig = None
        self.injected = None
        self.cache = None
        self.count("probe.context_left")

    def _run(self):
        self.build()
        self.loop(0)
        self.step = len(self.ops)
        self.cur = {"k": "end"}
        if self.ir.cfg is not self.orig or self.unset(self.orig) != sorted(self.model.edges):
            self.fail("cfg-not-restored", {"what": "end of history"})


def _gen_retcache(r, params):
    nn = r.randint(2, 5)
    kinds = [r.choices(["code", "proxy"], [3, 2])[0] for _ in range(nn)]
    if "code" not in kinds:
        kinds[0] = "code"
    if "proxy" not in kinds and r.random() < 0.8:
        kinds[-1] = "proxy"
    labels = copy.deepcopy(RET_LABELS)
    nl = len(labels)

    def rnd_edge():
        lab = r.choice([1, 1, 2, 3]) if r.random() < 0.55 else r.randrange(nl)
        return [r.randrange(nn), r.randrange(nn), lab]

    edges = []
    for _ in range(r.randint(0, 5)):
        e = rnd_edge()
        if e not in edges:
            edges.append(e)
    setup = {"nodes": kinds, "labels": labels, "edges": edges}
    m = RetModel(setup)
    nops = r.randint(3, params.get("max_ops", MAX_OPS))
    ops = []
    last_orig = None

    def an_edge(p_present=0.5):
        if m.edges and r.random() < p_present:
            return list(r.choice(sorted(m.edges)))
        return rnd_edge()

    def edge_list():
        return [an_edge(0.4) for _ in range(r.randint(0, 4))]

    def propose():
        nonlocal last_orig
        if m.depth == 0:
            return {"k": "enter"}
        x = r.random()
        if x < 0.20:
            return {"k": "add", "e": an_edge(0.25)}
        if x < 0.36:
            return {"k": "discard", "e": an_edge(0.75)}
        if x < 0.42:
            return {"k": "remove", "e": an_edge(0.7)}
        if x < 0.46:
            return {"k": "pop"}
        if x < 0.48:
            return {"k": "clear"}
        if x < 0.66:
            k = r.choice(["update", "ior", "isub", "isub", "iand", "ixor"])
            form = r.choice(["list", "list", "cfg", "set", "tuple", "self"] if k != "update" else ["list", "cfg", "set", "tuple", "self"])
            op = {"k": k, "form": form, "es": [] if form == "self" else edge_list()}
            return op
        if x < 0.70:
            return {"k": "contains", "e": an_edge(0.5)}
        if x < 0.72:
            return {"k": "query"}
        if x < 0.78:
            if last_orig is not None and r.random() < 0.5:
                kk, e = last_orig
                last_orig = None
                return {"k": "orig_discard" if kk == "orig_add" else "orig_add", "e": e}
            y = r.random()
            if y < 0.05:
                return {"k": "orig_clear"}
            kk = "orig_add" if y < 0.55 else "orig_discard"
            if kk == "orig_add":
                e = rnd_edge()
            else:
                e = list(r.choice(sorted(m.orig))) if m.orig else rnd_edge()
            last_orig = (kk, e) if ((tuple(e) in m.orig) != (kk == "orig_add")) else None
            return {"k": kk, "e": e}
        if x < 0.81:
            if m.bound != "cache" and r.random() < 0.5:
                return {"k": "rebind", "to": "cache"}
            return {"k": "rebind", "to": r.choice(["new", "new", "orig"])}
        if x < 0.86:
            return {"k": "enter"}
        if x < 0.94:
            return {"k": "exit"}
        return {"k": "raise", "catch": r.choice([1, 1, 2, 99, 99])}

    tries = 0
    while len(ops) < nops and tries < nops * 4:
        tries += 1
        op = propose()
        if not m.legal(op):
            continue
        k = op["k"]
        if k == "exit":
            m.leave(1)
        elif k == "raise":
            m.leave(max(1, min(op["catch"], m.depth)))
        else:
            m.apply(op)
            if k == "pop" and m.edges:
                # the generator does not know which edge pop returns; keep
                # its view approximate (only used to bias edge choice)
                m.edges.discard(sorted(m.edges)[0])
        ops.append(op)
    return setup, ops


# ==========================================================================
# 3. BlockOrdering / LinkedListNode vs a list of lists
# ==========================================================================

LOOKUP_ERRS = ("KeyError", "ValueError")


class ChainModel:
    """A list of lists (chains) of item indices."""

    def __init__(self, n, all_singletons=False):
        self.n = n
        self.chains = [[i] for i in range(n)] if all_singletons else []

    def find(self, x):
        for ch in self.chains:
            if x in ch:
                return ch
        return None

    def adjacent(self, x):
        ch = self.find(x)
        i = ch.index(x)
        return (ch[i - 1] if i > 0 else None, ch[i + 1] if i + 1 < len(ch) else None)


class OrderingDriver(_Base):
    machine = "ordering"

    def legal(self, op):
        n = self.model.n
        k = op["k"]
        if k in ("add_detached", "insert_after"):
            bs = op["bs"]
            if len(set(bs)) != len(bs) or not all(0 <= b < n for b in bs):
                return False  # duplicates inside one call: undocumented
            if k == "insert_after" and not 0 <= op["a"] < n:
                return False
            return True
        if k in ("remove", "adjacent"):
            return 0 <= op["b"] < n
        return False

    def build(self):
        import gtirb
        from gtirb_rewriting._adt import BlockOrdering

        kinds = self.setup["blocks"]
        self.blocks = [gtirb.CodeBlock() if kk == "code" else (gtirb.DataBlock() if kk == "data" else gtirb.ByteBlock()) for kk in kinds]
        self.bidx = {id(b): i for i, b in enumerate(self.blocks)}
        self.ord = BlockOrdering()
        self.model = ChainModel(len(self.blocks))

    def name(self, b):
        return None if b is None else self.bidx.get(id(b), "foreign")

    def seq(self, op):
        xs = [self.blocks[b] for b in op["bs"]]
        return tuple(xs) if op.get("form") == "tuple" else xs

    def check(self):
        m = self.model
        for i, blk in enumerate(self.blocks):
            ok, val = self.lib(self.ord.adjacent_blocks, blk)
            if m.find(i) is None:
                self.expect(ok, val, LOOKUP_ERRS, f"adjacent_blocks of unordered block {i}")
                continue
            self.expect(ok, val, None, f"adjacent_blocks of block {i}")
            got = [self.name(val[0]), self.name(val[1])] if isinstance(val, tuple) and len(val) == 2 else repr(val)[:60]
            want = list(m.adjacent(i))
            if got != want:
                self.fail("ordering-diff", {"block": i, "expected": want, "got": got, "model": m.chains})

    def do(self, op):
        k = op["k"]
        m = self.model
        if k in ("add_detached", "insert_after"):
            bs = op["bs"]
            errs = set()
            if any(m.find(b) is not None for b in bs):
                errs.add("ValueError")
                self.count("probe.insert_already_ordered")
            if k == "insert_after" and m.find(op["a"]) is None:
                errs.update(LOOKUP_ERRS)
                self.count("probe.insert_after_unordered")
            if k == "add_detached":
                ok, val = self.lib(self.ord.add_detached_blocks, self.seq(op))
            else:
                ok, val = self.lib(self.ord.insert_blocks_after, self.blocks[op["a"]], self.seq(op))
            self.expect(ok, val, tuple(sorted(errs)) or None, k)
            if not errs and bs:
                if k == "add_detached":
                    m.chains.append(list(bs))
                else:
                    ch = m.find(op["a"])
                    i = ch.index(op["a"])
                    if i + 1 < len(ch):
                        self.count("probe.insert_in_middle")
                    ch[i + 1 : i + 1] = list(bs)
                self.mutations += 1
            elif not bs:
                self.count("probe.empty_insert")
        elif k == "remove":
            b = op["b"]
            ch = m.find(b)
            ok, val = self.lib(self.ord.remove_block, self.blocks[b])
            if ch is None:
                self.count("probe.remove_unordered")
                self.expect(ok, val, LOOKUP_ERRS, k)
            else:
                self.expect(ok, val, None, k)
                if 0 < ch.index(b) < len(ch) - 1:
                    self.count("probe.remove_from_middle")
                ch.remove(b)
                if not ch:
                    m.chains.remove(ch)
                self.mutations += 1
        elif k == "adjacent":
            pass
        self.check()

    def _run(self):
        self.build()
        self.check()
        for i, op in enumerate(self.ops):
            if not self.legal(op):
                self.skip(op)
                continue
            self.begin(i, op)
            self.do(op)


def _gen_ordering(r, params):
    n = r.randint(2, 8)
    setup = {"blocks": [r.choice(["code", "data", "byte"]) for _ in range(n)]}
    m = ChainModel(n)
    ops = []
    for _ in range(r.randint(3, params.get("max_ops", MAX_OPS))):
        ordered = [x for ch in m.chains for x in ch]
        free = [x for x in range(n) if x not in ordered]
        x = r.random()

        def pick_bs():
            y = r.random()
            pool = free if (y < 0.8 and free) else list(range(n))
            kk = r.choice([0, 1, 1, 1, 2, 2, 3])
            return r.sample(pool, min(kk, len(pool)))

        if x < 0.25 or not ordered:
            op = {"k": "add_detached", "bs": pick_bs(), "form": r.choice(["tuple", "list"])}
        elif x < 0.60:
            a = r.choice(ordered) if r.random() < 0.92 else r.randrange(n)
            op = {"k": "insert_after", "a": a, "bs": pick_bs(), "form": r.choice(["tuple", "list"])}
        elif x < 0.90:
            op = {"k": "remove", "b": r.choice(ordered) if r.random() < 0.9 else r.randrange(n)}
        else:
            op = {"k": "adjacent", "b": r.randrange(n)}
        # step the generator's model
        if op["k"] in ("add_detached", "insert_after"):
            bs = op["bs"]
            bad = any(m.find(b) is not None for b in bs) or (op["k"] == "insert_after" and m.find(op["a"]) is None)
            if not bad and bs:
                if op["k"] == "add_detached":
                    m.chains.append(list(bs))
                else:
                    ch = m.find(op["a"])
                    i = ch.index(op["a"])
                    ch[i + 1 : i + 1] = list(bs)
        elif op["k"] == "remove":
            ch = m.find(op["b"])
            if ch is not None:
                ch.remove(op["b"])
                if not ch:
                    m.chains.remove(ch)
        ops.append(op)
    return setup, ops


class LinkedListDriver(_Base):
    machine = "linkedlist"

    def legal(self, op):
        n = self.model.n
        k = op["k"]
        if k == "insert_after":
            return 0 <= op["a"] < n and 0 <= op["n"] < n and op["a"] != op["n"]
        if k == "unlink":
            return 0 <= op["a"] < n
        return False

    def build(self):
        from gtirb_rewriting._adt.linked_list import LinkedListNode

        n = self.setup["n"]
        self.values = [[i % 2] for i in range(n)]  # equal-but-distinct values
        self.nodes = [LinkedListNode(v) for v in self.values]
        self.nidx = {id(x): i for i, x in enumerate(self.nodes)}
        self.model = ChainModel(n, all_singletons=True)

    def name(self, x):
        return None if x is None else self.nidx.get(id(x), "foreign")

    def check(self):
        m = self.model
        for i, node in enumerate(self.nodes):
            got = [self.name(node.prev), self.name(node.next)]
            want = list(m.adjacent(i))
            if got != want or node.value is not self.values[i]:
                self.fail("ordering-diff", {"node": i, "expected": want, "got": got, "model": m.chains})

    def do(self, op):
        m = self.model
        if op["k"] == "insert_after":
            a, n = op["a"], op["n"]
            chn = m.find(n)
            ok, val = self.lib(self.nodes[a].insert_node_after, self.nodes[n])
            if len(chn) > 1:
                self.count("probe.insert_linked_node")
                self.expect(ok, val, ("ValueError",), "insert_node_after")
            else:
                self.expect(ok, val, None, "insert_node_after")
                m.chains.remove(chn)
                ch = m.find(a)
                i = ch.index(a)
                if i + 1 < len(ch):
                    self.count("probe.insert_in_middle")
                ch.insert(i + 1, n)
                self.mutations += 1
        else:
            a = op["a"]
            ch = m.find(a)
            ok, val = self.lib(self.nodes[a].unlink)
            self.expect(ok, val, None, "unlink")
            if len(ch) > 1:
                if 0 < ch.index(a) < len(ch) - 1:
                    self.count("probe.remove_from_middle")
                ch.remove(a)
                m.chains.append([a])
                self.mutations += 1
            else:
                self.count("probe.unlink_detached")
        self.check()

    def _run(self):
        self.build()
        self.check()
        for i, op in enumerate(self.ops):
            if not self.legal(op):
                self.skip(op)
                continue
            self.begin(i, op)
            self.do(op)


def _gen_linkedlist(r, params):
    n = r.randint(2, 7)
    m = ChainModel(n, all_singletons=True)
    ops = []
    for _ in range(r.randint(3, params.get("max_ops", MAX_OPS))):
        single = [ch[0] for ch in m.chains if len(ch) == 1]
        if r.random() < 0.6:
            b = r.choice(single) if single and r.random() < 0.85 else r.randrange(n)
            a = r.choice([x for x in range(n) if x != b])
            ops.append({"k": "insert_after", "a": a, "n": b})
            chn = m.find(b)
            if len(chn) == 1:
                m.chains.remove(chn)
                ch = m.find(a)
                ch.insert(ch.index(a) + 1, b)
        else:
            linked = [x for ch in m.chains if len(ch) > 1 for x in ch]
            a = r.choice(linked) if linked and r.random() < 0.85 else r.randrange(n)
            ops.append({"k": "unlink", "a": a})
            ch = m.find(a)
            if len(ch) > 1:
                ch.remove(a)
                m.chains.append([a])
    return {"n": n}, ops


# ==========================================================================
# 4. OffsetMapping vs a dictionary of dictionaries
# ==========================================================================

OM_BAD = [5, "x", [1], None, (1, 2)]
OM_BAD_PICK = [0, 0, 0, 1, 1, 1, 2, 2, 2, 3, 3, 3, 4]
OM_DISPS = 4
_MISSING = object()


class OMModel:
    """Literally a dict of dicts; inner dict objects are shared with the
    'held' dicts the caller passed in, exactly like the real thing."""

    def __init__(self, setup):
        self.elems = setup["elems"]
        self.data = {}
        self.held = [dict((int(d), v) for d, v in h) for h in setup["held"]]

    def canon(self, e):
        el = self.elems[e]
        return ("uuid", el["v"]) if el["t"] == "uuid" else ("node", e)

    # each method returns (errs | None, value)
    def getitem(self, key):
        if key[0] == "off":
            e, d = self.canon(key[1]), key[2]
            if e in self.data and d in self.data[e]:
                return None, self.data[e][d]
            return ("KeyError",), None
        e = self.canon(key[1])
        if e in self.data:
            return None, self.data[e]
        return ("KeyError",), None

    def setitem(self, key, value):
        """value: for 'off' keys a plain value; for 'elem' keys ('slot', j) or ('bad', i)"""
        if key[0] == "off":
            self.data.setdefault(self.canon(key[1]), {})[key[2]] = value
            return None, None
        if value[0] == "bad":
            return ("ValueError",), None
        self.data[self.canon(key[1])] = self.held[value[1]]
        return None, None

    def delitem(self, key):
        errs, _ = self.getitem(key)
        if errs:
            return errs, None
        if key[0] == "off":
            del self.data[self.canon(key[1])][key[2]]
        else:
            del self.data[self.canon(key[1])]
        return None, None

    def offsets(self):
        return [(e, d) for e, sub in self.data.items() for d in sub]

    def flat(self):
        return {(e, d): v for e, sub in self.data.items() for d, v in sub.items()}


class OMDriver(_Base):
    machine = "offsetmap"

    def build(self):
        import gtirb
        from gtirb_rewriting._adt import OffsetMapping

        self.gtirb = gtirb
        self.model = OMModel(self.setup)
        self.elems = []
        for e, el in enumerate(self.setup["elems"]):
            if el["t"] == "uuid":
                self.elems.append(_uuid.UUID(int=el["v"] + 1))
            else:
                self.elems.append(gtirb.DataBlock())
        self.canon_of = {}
        for e, obj in enumerate(self.elems):
            self.canon_of[obj if isinstance(obj, _uuid.UUID) else id(obj)] = self.model.canon(e)
        self.held = [dict(h) for h in self.model.held]
        init = self.setup.get("init") or []
        if init:
            items, mitems = self.items_of(init, self.setup.get("init_form"))
            arg = dict(items) if self.setup.get("init_form") == "dict" else items
            ok, val = self.lib(OffsetMapping, arg)
            self.cur = {"k": "ctor"}
            self.expect(ok, val, None, "constructor")
            self.m = val
            for key, value in mitems:
                self.model.setitem(key, value)
        else:
            self.m = OffsetMapping()

    def legal(self, op):
        ne, nh = len(self.setup["elems"]), len(self.setup["held"])

        def key_ok(key):
            return 0 <= key[1] < ne

        k = op["k"]
        if "key" in op and not key_ok(op["key"]):
            return False
        if "slot" in op and not 0 <= op["slot"] < nh:
            return False
        if "bad" in op and not 0 <= op["bad"] < len(OM_BAD):
            return False
        if k == "update":
            for it in op["items"]:
                if not key_ok(it[0]):
                    return False
                if it[0][0] == "elem" and not 0 <= it[1] < nh:
                    return False
        if k in ("set_bad", "setdefault_bad") and (op["key"][0] != "elem" or "bad" not in op):
            return False
        return k in ("set", "set_bad", "setdefault_bad", "get", "del", "has", "sub_set", "sub_del", "held_set", "held_del", "mget", "pop", "setdefault", "update", "popitem", "clear")

    def rkey(self, key):
        if key[0] == "off":
            return self.gtirb.Offset(self.elems[key[1]], key[2])
        return self.elems[key[1]]

    def items_of(self, items, form):
        """items: [[key, value-or-slot], ...] -> (real pairs, model pairs).
        For the dict form the model pairs are de-duplicated the way a dict
        of the real keys is; for the pairs form they stay sequential."""
        real, mod, seq = [], {}, []
        for key, v in items:
            key = tuple(key)
            real.append((self.rkey(key), self.held[v] if key[0] == "elem" else v))
            ck = (key[0], self.model.canon(key[1])) + tuple(key[2:])
            mod[ck] = (key, ("slot", v) if key[0] == "elem" else v)
            seq.append(mod[ck])
        return real, (list(mod.values()) if form == "dict" else seq)

    def uncanon(self, elem):
        k = elem if isinstance(elem, _uuid.UUID) else id(elem)
        return self.canon_of.get(k, ("foreign", repr(elem)[:40]))

    def unoff(self, off):
        if not isinstance(off, self.gtirb.Offset):
            return ("not-an-offset", repr(off)[:40])
        return (self.uncanon(off.element_id), off.displacement)

    def same(self, got, want):
        """compare a real result with a model result"""
        if isinstance(want, dict):
            return isinstance(got, dict) and got == want
        return got == want and type(got) is type(want)

    def check(self):
        m, md = self.m, self.model
        flat = md.flat()
        ok, val = self.lib(lambda: (len(m), bool(m), list(m), list(m.items()), list(m.node_keys()), dict(m)))
        self.expect(ok, val, None, "len/bool/iter/items/node_keys")
        ln, bl, it, items, nk, asdict = val
        got_it = [self.unoff(o) for o in it]
        if ln != len(flat) or bl != bool(flat) or sorted(got_it, key=repr) != sorted(flat, key=repr):
            self.fail("mapping-diff", {"what": "len/bool/iter", "expected": {"len": len(flat), "bool": bool(flat), "offsets": sorted(map(repr, flat))}, "got": {"len": ln, "bool": bl, "offsets": sorted(map(repr, got_it))}})
        got_items = sorted(((self.unoff(o), v) for o, v in items), key=repr)
        if got_items != sorted(flat.items(), key=repr):
            self.fail("mapping-diff", {"what": "items", "expected": repr(sorted(flat.items(), key=repr)), "got": repr(got_items)})
        if sorted((self.uncanon(x) for x in nk), key=repr) != sorted(md.data, key=repr):
            self.fail("mapping-diff", {"what": "node_keys (elements)", "expected": sorted(map(repr, md.data)), "got": sorted(repr(self.uncanon(x)) for x in nk)})
        ok, eq = self.lib(lambda: m == asdict and len(asdict) == len(flat))
        self.expect(ok, eq, None, "==")
        if not eq:
            self.fail("mapping-diff", {"what": "mapping != dict(mapping)"})
        for e in range(len(self.elems)):
            ce = md.canon(e)
            ok, val = self.lib(lambda: (self.elems[e] in m, m.get(self.elems[e], _MISSING)))
            self.expect(ok, val, None, "element lookup")
            has, sub = val
            if has != (ce in md.data) or (sub is _MISSING) != (ce not in md.data) or (sub is not _MISSING and not self.same(sub, md.data[ce])):
                self.fail("mapping-diff", {"what": "element view", "elem": e, "expected": repr(md.data.get(ce, "absent")), "got": repr(sub if sub is not _MISSING else "absent"), "in": has})
            if ce in md.data and not md.data[ce]:
                self.count("probe.empty_inner_dict")
            for d in range(OM_DISPS):
                off = self.gtirb.Offset(self.elems[e], d)
                ok, val = self.lib(lambda: (off in m, m.get(off, _MISSING)))
                self.expect(ok, val, None, "offset lookup")
                has, v = val
                want = flat.get((ce, d), _MISSING)
                if has != (want is not _MISSING) or v is not want and v != want:
                    self.fail("mapping-diff", {"what": "offset view", "elem": e, "disp": d, "expected": repr(want if want is not _MISSING else "absent"), "got": repr(v if v is not _MISSING else "absent"), "in": has})
        for j, h in enumerate(self.held):
            if h != md.held[j]:
                self.fail("mapping-diff", {"what": "caller-held inner dict", "slot": j, "expected": repr(md.held[j]), "got": repr(h)})

    def do(self, op):
        k = op["k"]
        m, md = self.m, self.model
        before = repr(sorted(md.flat().items(), key=repr)) + repr(sorted(md.data, key=repr))
        key = tuple(op["key"]) if "key" in op else None
        if key is not None and key[0] == "elem":
            self.count("probe.key_by_element")
        if k in ("set", "set_bad"):
            if key[0] == "off":
                errs, _ = md.setitem(key, op["v"])
                ok, val = self.lib(m.__setitem__, self.rkey(key), op["v"])
            elif "bad" in op:
                self.count("probe.set_non_mapping")
                errs, _ = md.setitem(key, ("bad", op["bad"]))
                ok, val = self.lib(m.__setitem__, self.rkey(key), copy.deepcopy(OM_BAD[op["bad"]]))
            else:
                errs, _ = md.setitem(key, ("slot", op["slot"]))
                ok, val = self.lib(m.__setitem__, self.rkey(key), self.held[op["slot"]])
            self.expect(ok, val, errs, k)
        elif k == "get":
            errs, want = md.getitem(key)
            ok, val = self.lib(m.__getitem__, self.rkey(key))
            self.expect(ok, val, errs, k)
            if not errs and not self.same(val, want):
                self.fail("mapping-diff", {"what": "getitem", "expected": repr(want), "got": repr(val)})
        elif k == "del":
            errs, _ = md.delitem(key)
            ok, val = self.lib(m.__delitem__, self.rkey(key))
            self.expect(ok, val, errs, k)
        elif k == "has":
            errs, _ = md.getitem(key)
            ok, val = self.lib(m.__contains__, self.rkey(key))
            self.expect(ok, val, None, k)
            if bool(val) != (errs is None):
                self.fail("mapping-diff", {"what": "in", "expected": errs is None, "got": bool(val)})
        elif k in ("sub_set", "sub_del"):
            errs, sub = md.getitem(("elem", key[1]))
            d = op["d"]
            if errs is None and k == "sub_del" and d not in sub:
                errs = ("KeyError",)
            elif errs is None and k == "sub_set":
                sub[d] = op["v"]
            elif errs is None:
                del sub[d]

            def through():
                if k == "sub_set":
                    m[self.rkey(("elem", key[1]))][d] = op["v"]
                else:
                    del m[self.rkey(("elem", key[1]))][d]

            ok, val = self.lib(through)
            self.expect(ok, val, errs, k)
        elif k in ("held_set", "held_del"):
            j, d = op["slot"], op["d"]
            if any(sub is md.held[j] for sub in md.data.values()):
                self.count("probe.mutation_through_held_dict")
            if k == "held_set":
                md.held[j][d] = op["v"]
                self.held[j][d] = op["v"]
            else:
                md.held[j].pop(d, None)
                self.held[j].pop(d, None)
        elif k == "mget":
            errs, want = md.getitem(key)
            if "default" in op:
                ok, val = self.lib(m.get, self.rkey(key), op["default"])
                want = op["default"] if errs else want
            else:
                ok, val = self.lib(m.get, self.rkey(key))
                want = None if errs else want
            self.expect(ok, val, None, k)
            if not self.same(val, want):
                self.fail("mapping-diff", {"what": "get", "expected": repr(want), "got": repr(val)})
        elif k == "pop":
            errs, want = md.getitem(key)
            if not errs:
                want = dict(want) if isinstance(want, dict) else want
                md.delitem(key)
            if "default" in op:
                ok, val = self.lib(m.pop, self.rkey(key), op["default"])
                want = op["default"] if errs else want
                errs = None
            else:
                ok, val = self.lib(m.pop, self.rkey(key))
            self.expect(ok, val, errs, k)
            if not errs and not self.same(val, want):
                self.fail("mapping-diff", {"what": "pop", "expected": repr(want), "got": repr(val)})
        elif k in ("setdefault", "setdefault_bad"):
            errs, want = md.getitem(key)
            if key[0] == "off":
                default, mdefault = op["v"], op["v"]
            elif "bad" in op:
                default, mdefault = copy.deepcopy(OM_BAD[op["bad"]]), ("bad", op["bad"])
            else:
                default, mdefault = self.held[op["slot"]], ("slot", op["slot"])
            if errs:
                errs, _ = md.setitem(key, mdefault)
                want = None if errs else (md.held[op["slot"]] if key[0] == "elem" else op["v"])
            ok, val = self.lib(m.setdefault, self.rkey(key), default)
            self.expect(ok, val, errs, k)
            if not errs and not self.same(val, want):
                self.fail("mapping-diff", {"what": "setdefault", "expected": repr(want), "got": repr(val)})
        elif k == "update":
            items, mitems = self.items_of(op["items"], op.get("form"))
            for mk, mv in mitems:
                md.setitem(mk, mv)
            ok, val = self.lib(m.update, dict(items) if op.get("form") == "dict" else items)
            self.expect(ok, val, None, k)
        elif k == "popitem":
            offs = md.offsets()
            ok, val = self.lib(m.popitem)
            if not offs:
                self.count("probe.popitem_without_offsets")
                self.expect(ok, val, ("KeyError",), k)
            else:
                self.expect(ok, val, None, k)
                o, v = self.unoff(val[0]), val[1]
                if o not in md.flat() or md.flat()[o] != v:
                    self.fail("mapping-diff", {"what": "popitem returned something that is not in the mapping", "got": repr((o, v))})
                del md.data[o[0]][o[1]]
        elif k == "clear":
            # Offset view (MutableMapping): every Offset goes away.  The
            # element view afterwards is not constrained by C20's op list;
            # the model follows the mixin (popitem until empty).
            ok, val = self.lib(m.clear)
            self.expect(ok, val, None, k)
            for sub in md.data.values():
                sub.clear()
        after = repr(sorted(md.flat().items(), key=repr)) + repr(sorted(md.data, key=repr))
        if after != before:
            self.mutations += 1
        self.check()

    def _run(self):
        self.build()
        self.check()
        for i, op in enumerate(self.ops):
            if not self.legal(op):
                self.skip(op)
                continue
            self.begin(i, op)
            self.do(op)


def _gen_offsetmap(r, params):
    ne = r.randint(1, 4)
    elems = []
    for _ in range(ne):
        if r.random() < 0.6:
            elems.append({"t": "uuid", "v": r.randrange(3)})  # equal-but-distinct UUIDs happen
        else:
            elems.append({"t": "node"})
    held = [[[r.randrange(OM_DISPS), r.randrange(10)] for _ in range(r.randint(0, 3))] for _ in range(3)]
    held = [[list(x) for x in dict((d, v) for d, v in h).items()] for h in held]

    def key(p_elem=0.3):
        e = r.randrange(ne)
        return ["elem", e] if r.random() < p_elem else ["off", e, r.randrange(OM_DISPS)]

    def items():
        out = []
        for _ in range(r.randint(0, 3)):
            kk = key(0.3)
            out.append([kk, r.randrange(3) if kk[0] == "elem" else r.randrange(10)])
        return out

    setup = {"elems": elems, "held": held, "init": items() if r.random() < 0.4 else [], "init_form": r.choice(["dict", "pairs"])}
    ops = []
    bad_pick = [i for i in OM_BAD_PICK if not (params.get("_avoid") and isinstance(OM_BAD[i], tuple))]
    for _ in range(r.randint(3, params.get("max_ops", MAX_OPS))):
        x = r.random()
        if x < 0.22:
            kk = key(0.3)
            if kk[0] == "off":
                op = {"k": "set", "key": kk, "v": r.randrange(10)}
            elif r.random() < 0.15:
                op = {"k": "set_bad", "key": kk, "bad": r.choice(bad_pick)}
            else:
                op = {"k": "set", "key": kk, "slot": r.randrange(3)}
        elif x < 0.30:
            op = {"k": "get", "key": key()}
        elif x < 0.46:
            op = {"k": "del", "key": key(0.25)}
        elif x < 0.50:
            op = {"k": "has", "key": key()}
        elif x < 0.58:
            op = {"k": r.choice(["sub_set", "sub_set", "sub_del"]), "key": ["elem", r.randrange(ne)], "d": r.randrange(OM_DISPS), "v": r.randrange(10)}
        elif x < 0.66:
            op = {"k": r.choice(["held_set", "held_del"]), "slot": r.randrange(3), "d": r.randrange(OM_DISPS), "v": r.randrange(10)}
        elif x < 0.71:
            op = {"k": "mget", "key": key()}
            if r.random() < 0.5:
                op["default"] = r.choice([None, 77, "dflt"])
        elif x < 0.80:
            op = {"k": "pop", "key": key()}
            if r.random() < 0.5:
                op["default"] = r.choice([None, 77, "dflt"])
        elif x < 0.88:
            kk = key(0.4)
            if kk[0] == "off":
                op = {"k": "setdefault", "key": kk, "v": r.randrange(10)}
            elif r.random() < 0.15:
                op = {"k": "setdefault_bad", "key": kk, "bad": r.choice(bad_pick)}
            else:
                op = {"k": "setdefault", "key": kk, "slot": r.randrange(3)}
        elif x < 0.94:
            op = {"k": "update", "items": items(), "form": r.choice(["dict", "pairs"])}
        elif x < 0.98:
            op = {"k": "popitem"}
        else:
            op = {"k": "clear"}
        ops.append(op)
    return setup, ops


# ==========================================================================
# 5. IdentitySet vs a set of id()s
# ==========================================================================

IDSET_NSETS = 3
IDSET_INPLACE = {"ior": operator.ior, "isub": operator.isub, "iand": operator.iand, "ixor": operator.ixor}
IDSET_BINOP = {"or": operator.or_, "and": operator.and_, "sub": operator.sub, "xor": operator.xor}
IDSET_CMP = {"eq": operator.eq, "ne": operator.ne, "le": operator.le, "lt": operator.lt, "ge": operator.ge, "gt": operator.gt}


def _idset_model_op(name, a, b):
    if name in ("ior", "or"):
        return a | b
    if name in ("isub", "sub"):
        return a - b
    if name in ("iand", "and"):
        return a & b
    return a ^ b


class IdSetDriver(_Base):
    machine = "idset"

    def build(self):
        from gtirb_rewriting._adt import IdentitySet

        self.cls = IdentitySet
        self.objs = []
        for o in self.setup["objs"]:
            t, v = o["t"], o["v"]
            if t == "list":
                x = [v]
            elif t == "dict":
                x = {v: v}
            elif t == "tuple":
                x = tuple([v, v])
            elif t == "float":
                x = float(v) + 0.5
            else:
                x = frozenset([v, v + 100])
            self.objs.append(x)
        if len({id(x) for x in self.objs}) != len(self.objs):
            raise core.HarnessError("objects are not distinct")
        self.oidx = {id(x): i for i, x in enumerate(self.objs)}
        self.sets = [IdentitySet() for _ in range(IDSET_NSETS)]
        self.model = [set() for _ in range(IDSET_NSETS)]

    def legal(self, op):
        n = len(self.setup["objs"])
        if not 0 <= op.get("t", 0) < IDSET_NSETS:
            return False
        if "x" in op and not 0 <= op["x"] < n:
            return False
        if "xs" in op and not all(0 <= x < n for x in op["xs"]):
            return False
        if "t2" in op and not 0 <= op["t2"] < IDSET_NSETS:
            return False
        k = op["k"]
        if k in IDSET_CMP or k == "isdisjoint":
            return "t2" in op or (k == "isdisjoint" and "xs" in op)
        if k in IDSET_INPLACE or k in IDSET_BINOP:
            return "t2" in op or "xs" in op
        return k in ("add", "discard", "remove", "pop", "clear", "contains", "ctor")

    def ids(self, s):
        return sorted(self.oidx.get(id(x), -1) for x in s)

    def operand(self, op):
        if "t2" in op:
            return self.sets[op["t2"]], set(self.model[op["t2"]])
        xs = [self.objs[x] for x in op["xs"]]
        return (tuple(xs) if op.get("form") == "tuple" else xs), set(op["xs"])

    def check(self):
        for t, s in enumerate(self.sets):
            want = sorted(self.model[t])
            ok, val = self.lib(lambda: (len(s), list(s), [x in s for x in self.objs]))
            self.expect(ok, val, None, "len/iter/in")
            ln, it, has = val
            if ln != len(want) or self.ids(it) != want or [i for i, h in enumerate(has) if h] != want:
                self.fail("identity-set-diff", {"set": t, "expected": want, "got": {"len": ln, "iter": self.ids(it), "in": [i for i, h in enumerate(has) if h]}})
            vals = [repr(self.objs[i]) for i in want]
            if len(set(vals)) < len(vals):
                self.count("probe.equal_but_distinct_members")

    def do(self, op):
        k = op["k"]
        t = op.get("t", 0)
        s, m = self.sets[t], self.model[t]
        before = [set(x) for x in self.model]
        if k == "add":
            if any(j in m and self.objs[j] == self.objs[op["x"]] for j in range(len(self.objs)) if j != op["x"]):
                self.count("probe.add_equal_to_member")
            ok, val = self.lib(s.add, self.objs[op["x"]])
            self.expect(ok, val, None, k)
            m.add(op["x"])
        elif k == "discard":
            ok, val = self.lib(s.discard, self.objs[op["x"]])
            self.expect(ok, val, None, k)
            m.discard(op["x"])
        elif k == "remove":
            ok, val = self.lib(s.remove, self.objs[op["x"]])
            self.expect(ok, val, None if op["x"] in m else ("KeyError",), k)
            m.discard(op["x"])
        elif k == "pop":
            ok, val = self.lib(s.pop)
            self.expect(ok, val, None if m else ("KeyError",), k)
            if m:
                i = self.oidx.get(id(val), -1)
                if i not in m:
                    self.fail("identity-set-diff", {"what": "pop returned a non-member", "got": i})
                m.discard(i)
        elif k == "clear":
            ok, val = self.lib(s.clear)
            self.expect(ok, val, None, k)
            m.clear()
        elif k == "contains":
            ok, val = self.lib(lambda: self.objs[op["x"]] in s)
            self.expect(ok, val, None, k)
            if bool(val) != (op["x"] in m):
                self.fail("identity-set-diff", {"what": "in", "expected": op["x"] in m, "got": bool(val)})
        elif k == "ctor":
            xs = [self.objs[x] for x in op["xs"]]
            ok, val = self.lib(self.cls, iter(xs) if op.get("form") == "iter" else xs)
            self.expect(ok, val, None, k)
            self.sets[t] = val
            self.model[t] = set(op["xs"])
        elif k in IDSET_INPLACE:
            other, mo = self.operand(op)
            if other is s:
                self.count("probe.inplace_op_with_self")
            ok, val = self.lib(IDSET_INPLACE[k], s, other)
            self.expect(ok, val, None, k)
            self.model[t] = _idset_model_op(k, m, mo)
        elif k in IDSET_BINOP:
            other, mo = self.operand(op)
            ok, val = self.lib(IDSET_BINOP[k], s, other)
            self.expect(ok, val, None, k)
            want = sorted(_idset_model_op(k, m, mo))
            if not isinstance(val, self.cls) or self.ids(val) != want or len(val) != len(want):
                self.fail("identity-set-diff", {"what": "result of binary operator", "expected": want, "got": self.ids(val) if isinstance(val, self.cls) else repr(val)[:60]})
        elif k in IDSET_CMP:
            other, mo = self.operand(op)
            ok, val = self.lib(IDSET_CMP[k], s, other)
            self.expect(ok, val, None, k)
            want = IDSET_CMP[k](set(m), mo)
            if bool(val) != want:
                self.fail("identity-set-diff", {"what": "comparison", "expected": want, "got": bool(val), "sets": [sorted(m), sorted(mo)]})
        elif k == "isdisjoint":
            other, mo = self.operand(op)
            ok, val = self.lib(s.isdisjoint, other)
            self.expect(ok, val, None, k)
            if bool(val) != m.isdisjoint(mo):
                self.fail("identity-set-diff", {"what": "isdisjoint", "expected": m.isdisjoint(mo), "got": bool(val)})
        if self.model != before:
            self.mutations += 1
        self.check()

    def _run(self):
        self.build()
        self.check()
        for i, op in enumerate(self.ops):
            if not self.legal(op):
                self.skip(op)
                continue
            self.begin(i, op)
            self.do(op)


def _gen_idset(r, params):
    n = r.randint(2, 8)
    objs = [{"t": r.choice(["list", "dict", "tuple", "float", "frozenset"]), "v": r.randrange(2)} for _ in range(n)]
    if r.random() < 0.7:
        # make sure there are equal-but-distinct objects
        objs[1] = dict(objs[0])
    ops = []

    def operand():
        if r.random() < 0.45:
            return {"t2": r.randrange(IDSET_NSETS)}
        return {"xs": [r.randrange(n) for _ in range(r.randint(0, 4))], "form": r.choice(["list", "tuple"])}

    for _ in range(r.randint(3, params.get("max_ops", MAX_OPS))):
        x = r.random()
        t = r.choice([0, 0, 0, 1, 2])
        if x < 0.30:
            op = {"k": "add", "t": t, "x": r.randrange(n)}
        elif x < 0.42:
            op = {"k": "discard", "t": t, "x": r.randrange(n)}
        elif x < 0.50:
            op = {"k": "remove", "t": t, "x": r.randrange(n)}
        elif x < 0.55:
            op = {"k": "pop", "t": t}
        elif x < 0.57:
            op = {"k": "clear", "t": t}
        elif x < 0.62:
            op = {"k": "contains", "t": t, "x": r.randrange(n)}
        elif x < 0.67:
            op = {"k": "ctor", "t": t, "xs": [r.randrange(n) for _ in range(r.randint(0, 4))], "form": r.choice(["list", "iter"])}
        elif x < 0.82:
            op = dict({"k": r.choice(sorted(IDSET_INPLACE)), "t": t}, **operand())
        elif x < 0.92:
            op = dict({"k": r.choice(sorted(IDSET_BINOP)), "t": t}, **operand())
        elif x < 0.98:
            op = {"k": r.choice(sorted(IDSET_CMP)), "t": t, "t2": r.randrange(IDSET_NSETS)}
        else:
            op = dict({"k": "isdisjoint", "t": t}, **operand())
        ops.append(op)
    return {"objs": objs}, ops


# ==========================================================================
# engine API
# ==========================================================================

DRIVERS = {
    "refcache": RefDriver,
    "retcache": RetDriver,
    "ordering": OrderingDriver,
    "linkedlist": LinkedListDriver,
    "offsetmap": OMDriver,
    "idset": IdSetDriver,
}
GENERATORS = {
    "refcache": _gen_refcache,
    "retcache": _gen_retcache,
    "ordering": _gen_ordering,
    "linkedlist": _gen_linkedlist,
    "offsetmap": _gen_offsetmap,
    "idset": _gen_idset,
}


def run(prop, seed, params):
    streams = core.Streams(seed)
    params = dict(params or {})
    rs = streams.get("sched")
    sigma = {"uuid_seed": rs.getrandbits(48), "salt": rs.getrandbits(64), "hashseed": core.hashseed_of(seed)}
    weights = dict(MACHINE_WEIGHTS)
    weights.update(params.get("machines") or {})
    if params.get("machine"):
        weights = {params["machine"]: 1}
    names = sorted(weights)
    machine = streams.get("gen.machine").choices(names, [weights[n] for n in names])[0]
    # steer most runs away from the triggers of the findings already reported
    # for this engine (tuple as a non-mapping value, converting operations
    # under a suspended generator) so that they cannot hide neighbours
    params["_avoid"] = streams.get("gen.avoid").random() < params.get("avoid_known_p", 0.8)
    setup, ops = GENERATORS[machine](streams.get("gen.history"), params)
    scenario = {"engine": "ctsim", "seed": seed, "sigma": sigma, "machine": machine, "setup": setup, "ops": ops[:MAX_OPS]}
    return scenario, execute(prop, scenario, params)


def replay(prop, scenario, params):
    return execute(prop, scenario, params or {})


def execute(prop, scenario, params):
    """Pure function of (scenario, code under test)."""
    _install_refnode_seam()
    sigma = scenario["sigma"]
    core.reseed(sigma["uuid_seed"], sigma["salt"])
    _RN["n"] = 0
    _RN["salt"] = sigma["salt"] & core._MASK
    stats = collections.Counter()
    machine = scenario["machine"]
    drv = DRIVERS[machine](prop, scenario, stats)
    stats["machine." + machine] += 1
    try:
        drv.run()
        verdict = core.result_ok(dict(stats))
    except core.Violation as v:
        verdict = core.result_violation(v, dict(stats))
    verdict["meta"] = {
        "sdig": core.digest([machine, scenario["setup"], scenario["ops"]]),
        "nontrivial": drv.mutations > 0 and len(drv.kinds) >= 2,
        "interleavings": [core.digest([machine] + drv.kinds)],
        "sigma": core.digest(sigma),
    }
    return verdict


def _op_str(op):
    return op["k"] + "(" + ",".join(f"{k}={v}" for k, v in op.items() if k != "k") + ")"


def describe(scenario):
    return {
        "machine": scenario["machine"],
        "setup": scenario["setup"],
        "ops": [_op_str(op) for op in scenario["ops"]],
        "sigma": scenario["sigma"],
    }


# --------------------------------------------------------------------------
# shrinking (every sub-sequence of ops is a valid scenario: illegal ops are
# skipped by the drivers)


def shrink_candidates(prop, scenario):
    sc = scenario
    ops = sc["ops"]
    n = len(ops)

    def with_ops(new):
        c = copy.deepcopy(sc)
        c["ops"] = copy.deepcopy(new)
        return c

    # drop chunks, biggest first
    size = n // 2
    while size >= 2:
        for start in range(0, n, size):
            yield with_ops(ops[:start] + ops[start + size :])
        size //= 2
    for i in reversed(range(n)):
        yield with_ops(ops[:i] + ops[i + 1 :])
    # simplify single ops
    for i, op in enumerate(ops):
        for key, val in op.items():
            simpler = []
            if key in ("es", "xs", "bs", "items") and val:
                simpler = [val[:-1], val[1:]]
            elif key in ("take", "n") and val is not None:
                simpler = [None]
            elif key == "e" and val is True:
                simpler = [False]
            elif key == "form" and val not in ("list", "pairs"):
                simpler = ["pairs" if op["k"] == "update" and "items" in op else "list"]
            elif key == "catch" and val != 99:
                simpler = [99]
            elif key == "how" and val != "ctor":
                simpler = ["ctor"]
            for sv in simpler:
                if key == "form" and sv == "list" and op.get("form") == "self":
                    continue
                c = with_ops(ops)
                c["ops"][i][key] = sv
                yield c
    # simplify the setup
    setup = sc["setup"]
    m = sc["machine"]
    if m == "refcache":
        if setup.get("interleave") == "convert":
            c = copy.deepcopy(sc)
            c["setup"]["interleave"] = "disjoint"
            yield c
        if setup.get("interleave") != "none" and not any(op["k"] == "gen_open" for op in ops):
            c = copy.deepcopy(sc)
            c["setup"]["interleave"] = "none"
            yield c
        for i, s in enumerate(setup["symbols"]):
            if s["ref"] is not None:
                c = copy.deepcopy(sc)
                c["setup"]["symbols"][i]["ref"] = None
                yield c
            if s["e"]:
                c = copy.deepcopy(sc)
                c["setup"]["symbols"][i]["e"] = False
                yield c
        # drop a symbol / block nothing mentions, renumbering the rest
        used = {op.get("s") for op in ops}
        if not any(op["k"] == "new_symbol" for op in ops):
            for i in range(len(setup["symbols"])):
                if i not in used and len(setup["symbols"]) > 1:
                    c = copy.deepcopy(sc)
                    del c["setup"]["symbols"][i]
                    for op in c["ops"]:
                        if op.get("s") is not None and op["s"] > i:
                            op["s"] -= 1
                    yield c
        usedb = {op.get(k) for op in ops for k in ("b", "to")} | {s["ref"] for s in setup["symbols"]}
        for i in range(len(setup["blocks"])):
            if i not in usedb and len(setup["blocks"]) > 1:
                c = copy.deepcopy(sc)
                del c["setup"]["blocks"][i]
                for op in c["ops"]:
                    for k in ("b", "to"):
                        if op.get(k) is not None and op[k] > i:
                            op[k] -= 1
                for sy in c["setup"]["symbols"]:
                    if sy["ref"] is not None and sy["ref"] > i:
                        sy["ref"] -= 1
                yield c
        for i, kind in enumerate(setup["blocks"]):
            if kind != "data":
                c = copy.deepcopy(sc)
                c["setup"]["blocks"][i] = "data"
                yield c
    elif m == "retcache":
        for i in range(len(setup["edges"])):
            c = copy.deepcopy(sc)
            del c["setup"]["edges"][i]
            yield c
    elif m == "offsetmap":
        for i in range(len(setup.get("init") or [])):
            c = copy.deepcopy(sc)
            del c["setup"]["init"][i]
            yield c
        for j, h in enumerate(setup["held"]):
            if h:
                c = copy.deepcopy(sc)
                c["setup"]["held"][j] = []
                yield c
    # simplify sigma
    for key in ("salt", "uuid_seed"):
        if sc["sigma"].get(key):
            c = copy.deepcopy(sc)
            c["sigma"][key] = 0
            yield c
