"""machsim engine (DESIGN 4.4): the code gtirb_rewriting emits around a patch
(prologue . body . epilogue) is executed on a small simulated CPU together
with an environment it does not control: a havoc body (adversary limited only
by what the patch declared), a havoc callee (C17) and asynchronous signal
delivery that overwrites everything below the stack pointer (below the red
zone on x86-64 SysV) between any two instructions.

Real: gtirb_rewriting.abi (_allocate_patch_registers,
_create_prologue_and_epilogue), patches.calls.CallPatch,
RewritingContext (insert_at / apply / _invoke_patch / leafFunctions), the
Assembler and mcasm.  Stub: the CPU interpreter (sim/mach_cpu.py), the signal
model, the havoc body / callee, the symbol address map ("linker").

One run = one seeded configuration executed concretely.  Scenarios are pure
JSON; ``replay`` is a pure function of (scenario, code under test).
"""

import collections
import copy
import logging
import random
import traceback

from . import core
from . import mach_cpu

M64 = (1 << 64) - 1
M32 = (1 << 32) - 1

# --------------------------------------------------------------------------
# ground truth about the ABIs (independent of gtirb_rewriting.abi)


def _x86_names(bits):
    t = {}
    full_kind = "full"
    p = "r" if bits == 64 else "e"
    for r in "abcd":
        full = p + r + "x"
        t[r + "l"] = (full, "8l")
        t[r + "h"] = (full, "8h")
        t[r + "x"] = (full, "16")
        t["e" + r + "x"] = (full, "32" if bits == 64 else full_kind)
        if bits == 64:
            t["r" + r + "x"] = (full, full_kind)
    for r in ("si", "di"):
        full = p + r
        t[r + "l"] = (full, "8l")
        t[r] = (full, "16")
        t["e" + r] = (full, "32" if bits == 64 else full_kind)
        if bits == 64:
            t["r" + r] = (full, full_kind)
    if bits == 64:
        for i in range(8, 16):
            full = f"r{i}"
            t[full + "b"] = (full, "8l")
            t[full + "w"] = (full, "16")
            t[full + "d"] = (full, "32")
            t[full] = (full, full_kind)
    return t


def _arm64_names():
    t = {}
    for i in range(31):
        t[f"x{i}"] = (f"x{i}", "full")
        t[f"w{i}"] = (f"x{i}", "32")
    t["fp"] = ("x29", "full")
    t["lr"] = ("x30", "full")
    return t


def _mips_names():
    names = (
        [f"t{i}" for i in range(10)]
        + [f"a{i}" for i in range(4)]
        + [f"s{i}" for i in range(8)]
        + ["v0", "v1", "k0", "k1", "at", "zero", "gp", "sp", "fp", "ra"]
    )
    return {n: (n, "full") for n in names}


_X64_ORDER = ["rax", "rbx", "rcx", "rdx", "rsi", "rdi"] + [f"r{i}" for i in range(8, 16)]
_IA32_ORDER = ["eax", "ebx", "ecx", "edx", "esi", "edi"]

ABIS = {
    "x64-elf": {
        "cpu": "x64",
        "isa": "X64",
        "ff": "ELF",
        "W": 8,
        "sp": "rsp",
        "redzone": 128,
        "align": 16,
        "names": _x86_names(64),
        "pool": list(_X64_ORDER),
        "reserved": {"rsp", "rbp"},
        "caller_saved": ["rax", "rcx", "rdx", "rsi", "rdi", "r8", "r9", "r10", "r11"],
        "caller_saved_extra": [],
        "conv": {"registers": ["rdi", "rsi", "rdx", "rcx", "r8", "r9"], "stack_alignment": 16, "caller_cleanup": True, "shadow_space": 0},
        "sp_step": 8,
        "call_text": "call {sym}",
        "blocks": (b"\x90\x90", b"\x90\xe8\x00\x00\x00\x00", 2, b"\x90\xc3", 1),
    },
    "x64-pe": {
        "cpu": "x64",
        "isa": "X64",
        "ff": "PE",
        "W": 8,
        "sp": "rsp",
        "redzone": 0,
        "align": 16,
        "names": _x86_names(64),
        "pool": list(_X64_ORDER),
        "reserved": {"rsp", "rbp"},
        "caller_saved": ["rax", "rcx", "rdx", "r8", "r9", "r10", "r11"],
        "caller_saved_extra": [],
        "conv": {"registers": ["rcx", "rdx", "r8", "r9"], "stack_alignment": 16, "caller_cleanup": True, "shadow_space": 32},
        "sp_step": 8,
        "call_text": "call {sym}",
        "blocks": (b"\x90\x90", b"\x90\xe8\x00\x00\x00\x00", 2, b"\x90\xc3", 1),
    },
    "ia32-pe": {
        "cpu": "ia32",
        "isa": "IA32",
        "ff": "PE",
        "W": 4,
        "sp": "esp",
        "redzone": 0,
        "align": 4,
        "names": _x86_names(32),
        "pool": list(_IA32_ORDER),
        "reserved": {"esp", "ebp"},
        "caller_saved": ["eax", "ecx", "edx"],
        "caller_saved_extra": [],
        "conv": {"registers": [], "stack_alignment": 4, "caller_cleanup": True, "shadow_space": 0},
        "sp_step": 4,
        "call_text": "call {sym}",
        "blocks": (b"\x90\x90", b"\x90\xe8\x00\x00\x00\x00", 2, b"\x90\xc3", 1),
    },
    "arm64-elf": {
        "cpu": "arm64",
        "isa": "ARM64",
        "ff": "ELF",
        "W": 8,
        "sp": "sp",
        "redzone": 0,
        "align": 16,
        "names": _arm64_names(),
        "pool": [f"x{i}" for i in range(29) if i not in (16, 17, 18)],
        "reserved": {"x16", "x17", "x18", "x29", "x30", "sp"},
        # AAPCS64: r0-r17 are corruptible by a call (r16/r17 = IP0/IP1, used by veneers and PLT stubs); x30 is the link register
        "caller_saved": [f"x{i}" for i in range(18)] + ["x30"],
        "caller_saved_extra": [],
        "conv": {"registers": [f"x{i}" for i in range(8)], "stack_alignment": 16, "caller_cleanup": True, "shadow_space": 0},
        "sp_step": 16,
        "call_text": "bl {sym}",
        "blocks": (b"\x1f\x20\x03\xd5" * 2, b"\x1f\x20\x03\xd5\x00\x00\x00\x94", 4, b"\x1f\x20\x03\xd5\xc0\x03\x5f\xd6", 4),
    },
    "mips32-elf": {
        "cpu": "mips32",
        "isa": "MIPS32",
        "ff": "ELF",
        "W": 4,
        "sp": "sp",
        "redzone": 0,
        "align": 8,
        "names": _mips_names(),
        "pool": [f"t{i}" for i in range(8)],
        "reserved": {"zero", "at", "k0", "k1", "gp", "sp", "fp", "ra", "t9"},
        # o32: only $16..$23 and $28..$31 are preserved across calls
        "caller_saved": [f"t{i}" for i in range(10)] + [f"a{i}" for i in range(4)] + ["v0", "v1"],
        "caller_saved_extra": ["at"],
        "conv": None,
        "sp_step": 8,
        "call_text": "jal {sym}\nnop",
        "blocks": (b"\x00" * 8, b"\x00\x00\x00\x00\x0c\x00\x00\x00\x00\x00\x00\x00", 4, b"\x00\x00\x00\x00\x03\xe0\x00\x08\x00\x00\x00\x00", 4),
    },
}
C17_ABIS = ["x64-elf", "x64-pe", "ia32-pe", "arm64-elf"]
SYMBOLS = ["datum", "extsym", "callee"]


def canon(abi, name):
    ent = ABIS[abi]["names"].get(name.lower())
    if ent is None:
        raise core.HarnessError(f"machsim: unknown register name {name} for {abi}")
    return ent


def canon_set(abi, names):
    return {canon(abi, n)[0] for n in names}


def available_scratch(abi, cons):
    """Registers a correct allocator may hand out: the ABI's pool minus the
    declared clobbers and the read registers."""
    taken = canon_set(abi, cons.get("clobbers_registers", [])) | canon_set(abi, cons.get("reads_registers", []))
    return [r for r in ABIS[abi]["pool"] if r not in taken]


# --------------------------------------------------------------------------
# capture seam: RewritingContext._invoke_patch

_CAPTURE = []
_SILENT = logging.getLogger("machsim.silent")
_SILENT.setLevel(logging.CRITICAL + 1)
_SILENT.propagate = False


class _FormatOnly(logging.Handler):
    def emit(self, record):
        record.getMessage()


_DEBUG = logging.getLogger("machsim.debug")
_DEBUG.setLevel(logging.DEBUG)
_DEBUG.propagate = False
_DEBUG.addHandler(_FormatOnly())


def _logger(sc):
    """Per-run knob: a DEBUG logger whose handler formats every record (the
    library then prints the code it is about to assemble and the blocks it
    changed, reading shared state in mid-rewrite); the emitted code must not
    depend on it."""
    return _DEBUG if sc.get("debug_log") else _SILENT


def _install_capture():
    from gtirb_rewriting import rewriting as R

    cur = R.RewritingContext._invoke_patch
    if getattr(cur, "_machsim", False):
        return
    orig = cur

    def _invoke_patch(self, patch, actual_block, actual_offset, context, **kw):
        res = orig(self, patch, actual_block, actual_offset, context, **kw)
        if res is not None:
            sec = res.text_section
            _CAPTURE.append(
                {
                    "patch": patch,
                    "context": context,
                    "data": bytes(sec.data),
                    "exprs": dict(sec.symbolic_expressions),
                    "sections": sorted(res.sections),
                }
            )
        return res

    _invoke_patch._machsim = True
    R.RewritingContext._invoke_patch = _invoke_patch


# --------------------------------------------------------------------------
# building the one-function module


class World:
    pass


def build_world(sc):
    import gtirb
    import gtirb_functions
    from gtirb_test_helpers import (
        add_code_block,
        add_data_block,
        add_data_section,
        add_edge,
        add_function,
        add_proxy_block,
        add_symbol,
        add_text_section,
        create_test_module,
    )

    abi = sc["abi"]
    info = ABIS[abi]
    func = sc["func"]
    isa = getattr(gtirb.Module.ISA, info["isa"])
    ff = getattr(gtirb.Module.FileFormat, info["ff"])
    bo = gtirb.Module.ByteOrder.Big if info["cpu"] == "mips32" else None
    btype = None
    if info["ff"] == "ELF":
        btype = ["DYN"] if func.get("pie", True) else ["EXEC"]
    ir, m = create_test_module(ff, isa, binary_type=btype, byte_order=bo)
    _, bi = add_text_section(m, 0x1000)
    callee = add_symbol(m, "callee", add_proxy_block(m))
    extsym = add_symbol(m, "extsym", add_proxy_block(m))
    leaf_b0, call_b0, call_sym_off, b1_bytes, first_len = info["blocks"]
    nonleaf = func["kind"] == "nonleaf"
    if nonleaf:
        b0 = add_code_block(bi, call_b0, {call_sym_off: gtirb.SymAddrConst(0, callee)})
    else:
        b0 = add_code_block(bi, leaf_b0)
    b1 = add_code_block(bi, b1_bytes)
    if func.get("unlabelled_edge"):
        # an edge without a label (legal GTIRB): it is not a call
        ir.cfg.add(gtirb.Edge(b0, b1))
    else:
        add_edge(ir.cfg, b0, b1, gtirb.Edge.Type.Fallthrough)
    if nonleaf:
        add_edge(ir.cfg, b0, callee.referent, gtirb.Edge.Type.Call)
    _, dbi = add_data_section(m, 0x4000)
    db = add_data_block(dbi, b"\x11" * 16)
    datum = add_symbol(m, "datum", db)
    functions = []
    if func["kind"] != "none" and func.get("orphan_after"):
        fu = add_function(m, "f", b0, set())
        functions = [gtirb_functions.Function(fu, {b0}, {b0}, [m.aux_data["functionNames"].data[fu]])]
    elif func["kind"] != "none":
        fu = add_function(m, "f", b0, {b1})
        functions = [gtirb_functions.Function(fu, {b0}, {b0, b1}, [m.aux_data["functionNames"].data[fu]])]
    w = World()
    w.ir, w.m, w.b0, w.b1, w.first_len = ir, m, b0, b1, first_len
    w.functions = functions
    w.syms = {"callee": callee, "extsym": extsym, "datum": datum}
    return w


def history_session(w, sc):
    """Session 1 of a leaf-history scenario: insert a call into the (so far
    leaf) function, so that session 2 sees a function with a Call edge whose
    leafFunctions entry still says 'may be a leaf'."""
    import gtirb_functions
    import gtirb_rewriting
    from gtirb_rewriting.assembly import Constraints
    from gtirb_rewriting.patch import Patch

    text = ABIS[sc["abi"]]["call_text"].format(sym="callee")

    class HistoryCall(Patch):
        def get_asm(self, ctx):
            return text

    ctx = gtirb_rewriting.RewritingContext(w.m, w.functions, logger=_logger(sc))
    ctx.insert_at(w.b1, 0, HistoryCall(Constraints()))
    ctx.apply()
    w.functions = gtirb_functions.Function.build_functions(w.m)
    if len(w.functions) != 1:
        raise core.HarnessError("history session lost the function")
    if sc["func"].get("amnesia"):
        gtirb_rewriting.RewritingContext(w.m, [], logger=_logger(sc)).apply()
        w.functions = gtirb_functions.Function.build_functions(w.m)
        if len(w.functions) != 1:
            raise core.HarnessError("intermediate session lost the function")


# --------------------------------------------------------------------------
# generators


def _sigma(streams):
    r = streams.get("sched")
    return {"uuid_seed": r.getrandbits(48), "salt": r.getrandbits(64), "hashseed": core.hashseed_of(streams.seed)}


def _interesting_value(r, W, sp0):
    mask = (1 << (8 * W)) - 1
    k = r.random()
    if k < 0.45:
        return r.getrandbits(8 * W)
    if k < 0.55:
        return 0
    if k < 0.65:
        return mask
    if k < 0.80:
        return (sp0 + r.choice([-256, -128, -16, -8, 0, 8, 16, 128])) & mask
    if k < 0.9:
        return r.getrandbits(16)
    return (1 << (8 * W - 1)) | r.getrandbits(8)


def gen_init(r, abi, need_align=None, any_align=False):
    info = ABIS[abi]
    W = info["W"]
    if W == 8:
        sp = 0x7FFC00000000 + r.getrandbits(28) * 64
    elif info["cpu"] == "mips32":
        sp = 0x7FF00000 + r.getrandbits(12) * 64
    else:
        sp = 0x00C00000 + r.getrandbits(12) * 64
    step = info["sp_step"]
    if need_align:
        sp = sp - sp % 1024 + r.randrange(0, 1024 // need_align) * need_align
    else:
        sp += r.randrange(0, 64 // step) * step
        if any_align and info["cpu"] in ("x64", "ia32") and r.random() < 0.1:
            sp += r.randrange(1, step)
    if info["cpu"] in ("x64", "ia32"):
        flags = mach_cpu.X86_FLAG_FIXED | (r.getrandbits(12) & 0x8D5) | (0x400 if r.random() < 0.1 else 0)
    elif info["cpu"] == "arm64":
        flags = r.getrandbits(4) << 28
    else:
        flags = 0
    return {"sp": sp, "flags": flags, "reg_seed": r.getrandbits(32), "fill": r.getrandbits(32)}


def gen_signals(r, params):
    n = r.choices([0, 1, 2, 3], weights=params.get("signal_weights", [25, 35, 25, 15]))[0]
    out = []
    for _ in range(n):
        out.append({"at": r.getrandbits(16), "n": r.choice([8, 16, 64, 136, 256, 512, 1024]), "seed": r.getrandbits(32)})
    return out


def gen_func(r, abi, params):
    kind = r.choices(["leaf", "nonleaf", "none"], weights=[50, 35, 15])[0]
    f = {"kind": kind, "history": kind != "none" and r.random() < 0.3, "site": r.randrange(3), "pie": r.random() < 0.7}
    if f["history"] and r.random() < 0.35:
        # between the two sessions somebody rewrites the module with a
        # context that was not told about the function (an empty function
        # list): what the first session recorded about it must survive
        f["amnesia"] = True
    if kind == "leaf" and not f["history"] and r.random() < 0.15:
        f["unlabelled_edge"] = True
    if kind == "nonleaf" and not f["history"] and r.random() < 0.25:
        # the patch goes into a block that belongs to NO function and sits
        # behind the blocks of a non-leaf function: it may be a leaf
        f["orphan_after"] = True
    return f


def gen_c16(seed, params):
    streams = core.Streams(seed)
    ra = streams.get("gen.abi")
    abis = params.get("abis") or list(ABIS)
    abi = ra.choice(abis)
    info = ABIS[abi]
    avoid = streams.get("gen.avoid").random() < params.get("avoid_known", 0.8)
    rc = streams.get("gen.constraints")
    names = sorted(info["names"])
    # clobbers: empty / few / many / all
    mode = rc.choices(["none", "few", "many", "all"], weights=[15, 50, 25, 10])[0]
    if mode == "none":
        clob = []
    elif mode == "few":
        clob = rc.sample(names, rc.randint(1, 4))
    elif mode == "many":
        clob = rc.sample(names, rc.randint(5, min(len(names), 24)))
    else:
        # every allocatable register (and a few more)
        clob = list(info["pool"]) + rc.sample(names, rc.randint(0, 4))
    clob = sorted({_mixcase(rc, n) for n in clob})
    cons = {
        "clobbers_registers": clob,
        "clobbers_flags": rc.random() < 0.45,
        "align_stack": info["cpu"] != "mips32" and rc.random() < 0.4,
        "preserve_caller_saved_registers": rc.random() < 0.3,
        "scratch_registers": 0,
        "reads_registers": [],
        "x86_syntax": rc.choice(["att", "intel"]),
    }
    # reads: normally registers a correct allocator could have handed out
    nreads = rc.choices([0, 1, 2, 4], weights=[55, 25, 15, 5])[0]
    cl = canon_set(abi, clob)
    # (read registers that are also clobbered / not allocatable / named twice
    # through aliases: finding F24, fixed - ordinary workload)
    if rc.random() < 0.5:
        cand = [n for n in names if info["names"][n][0] in info["pool"] and info["names"][n][0] not in cl]
    else:
        cand = names
    picked = rc.sample(cand, min(nreads, len(cand)))
    reads = sorted({_mixcase(rc, n) for n in picked})
    cons["reads_registers"] = reads
    avail = available_scratch(abi, cons)
    if avail and rc.random() < 0.55:
        k = rc.random()
        cons["scratch_registers"] = len(avail) if k < 0.15 else rc.randint(1, min(len(avail), 4))
    func = gen_func(streams.get("gen.func"), abi, params)
    if avoid:
        _steer_c16(rc, abi, cons, func)
    init = gen_init(streams.get("gen.init"), abi, any_align=cons["align_stack"])
    body = gen_body(streams.get("havoc"), abi, cons, init, avoid)
    sc = {
        "engine": "machsim",
        "prop": "C16",
        "seed": seed,
        "sigma": _sigma(streams),
        "abi": abi,
        "func": func,
        "constraints": cons,
        "init": init,
        "body": body,
        "signals": gen_signals(streams.get("faults"), params),
    }
    if streams.get("gen.knob").random() < 0.1:
        sc["debug_log"] = True
    if streams.get("gen.knob").random() < 0.1:
        # the patch text ends in another section (a string or table of the
        # patch's own): the epilogue still belongs behind the patch's code
        sc["tail_section"] = True
    if sc.get("prop") == "C16" and sc["constraints"]["reads_registers"] and sc["constraints"]["scratch_registers"] and streams.get("gen.knob").random() < 0.3:
        sc["decoy"] = True
    return sc


def _mixcase(r, n):
    k = r.random()
    if k < 0.7:
        return n
    if k < 0.9:
        return n.upper()
    return n.capitalize()


def known_triggers_c16(abi, cons, func):
    """Structural triggers of the findings known on the unchanged tree."""
    info = ABIS[abi]
    out = []
    cl = canon_set(abi, cons["clobbers_registers"])
    rd = canon_set(abi, cons["reads_registers"])
    saves = bool(cl or cons["scratch_registers"] or cons["preserve_caller_saved_registers"])
    if abi == "x64-elf" and cons["align_stack"] and not saves and not cons["clobbers_flags"] and func["kind"] != "nonleaf":
        out.append("align_stack-only-leaf")
    rd_list = [canon(abi, n)[0] for n in cons["reads_registers"]]
    if (rd & cl) or (rd - set(info["pool"])) or len(rd_list) != len(rd):
        # read register that is also clobbered / not allocatable anyway / named twice through aliases
        out.append("unguarded-read-register-removal")
    if abi == "arm64-elf" and cons["clobbers_flags"] and not cons["scratch_registers"] and not available_scratch(abi, cons):
        out.append("no-free-flags-register")
    return out


def _steer_c16(r, abi, cons, func):
    info = ABIS[abi]
    trig = known_triggers_c16(abi, cons, func)
    # ("align_stack-only-leaf": finding F23, fixed - no longer steered around)
    if "no-free-flags-register" in trig:
        # free one register
        victim = r.choice(info["pool"])
        cons["clobbers_registers"] = [n for n in cons["clobbers_registers"] if canon(abi, n)[0] != victim]
        cons["reads_registers"] = [n for n in cons["reads_registers"] if canon(abi, n)[0] != victim]


def gen_body(r, abi, cons, init, avoid):
    info = ABIS[abi]
    W = info["W"]
    sp0 = init["sp"]
    sets = []
    for n in cons["clobbers_registers"]:
        if r.random() < 0.85:
            sets.append({"k": "set", "r": n, "v": _interesting_value(r, W, sp0)})
    for i in range(cons["scratch_registers"]):
        if r.random() < 0.9:
            sets.append({"k": "set", "s": i, "v": _interesting_value(r, W, sp0)})
    if cons["preserve_caller_saved_registers"]:
        for c in info["caller_saved"]:
            if r.random() < 0.7:
                sets.append({"k": "set", "cs": c, "v": _interesting_value(r, W, sp0)})
        if not avoid:
            for c in info["caller_saved_extra"]:
                if r.random() < 0.5:
                    sets.append({"k": "set", "cs": c, "v": _interesting_value(r, W, sp0)})
    if cons["clobbers_flags"] and r.random() < 0.9:
        sets.append({"k": "flags", "v": r.getrandbits(32)})
    r.shuffle(sets)
    ops = []
    depth = 0
    extra = r.choices([0, 1, 3, 6], weights=[30, 30, 30, 10])[0]
    stack_ops = []
    for _ in range(extra):
        k = r.random()
        if k < 0.45:
            stack_ops.append({"k": "push", "v": _interesting_value(r, W, sp0)})
            depth += 1
        elif k < 0.65 and depth:
            stack_ops.append({"k": "pop"})
            depth -= 1
        else:
            stack_ops.append({"k": "wbelow", "off": r.choice([0, 0, 8, 64, 128]), "n": r.choice([4, 8, 16, 64, 128, 256]), "seed": r.getrandbits(32)})
    # interleave
    ops = list(sets)
    for so in stack_ops:
        ops.insert(r.randint(0, len(ops)), None)
    it = iter(stack_ops)
    ops = [next(it) if o is None else o for o in ops]
    return ops


# ---- C17

_INT_EDGES64 = [
    0, 1, 5, 0x7F, 0x80, 0xFF, 0xFFF, 0x1000, 0xFFFE, 0xFFFF, 0x10000, 0x10001, 0xFFFF0000, 0x12340000,
    2**31 - 1, 2**31, 2**31 + 1, 2**32 - 1, 2**32, 2**32 + 5, 0xFFFF00000000, 0x1234000000000000, 0xDEADBEEFFEEDFACE,
    2**63 - 1, 2**63, 2**64 - 1, 0xFFFFFFFFFFFF0000, 0xFFFF0000FFFF0000,
    -1, -5, -0x80, -0x81, -0xFFFF, -0x10000, -0x10001, -(2**31), -(2**31) - 1, -(2**32), -(2**63), -(2**63) + 1,
]
_INT_EDGES32 = [0, 1, 5, 0x7F, 0x80, 0xFF, 0xFFFF, 0x10000, 2**31 - 1, 2**31, 2**32 - 1, -1, -5, -0x80, -0x81, -0x8000, -(2**31)]


def int_class(v):
    if v == 0:
        return "zero"
    if 0 < v <= 0xFFFF:
        return "pos16"
    if -0xFFFF <= v < 0:
        return "neg16"
    if -(2**31) <= v < 2**31:
        return "simm32"
    if 2**31 <= v < 2**32:
        return "uimm32"
    if v < 0:
        return "neg-wide"
    if v >= 2**63:
        return "u64-high"
    return "wide"


def gen_int(r, abi):
    W = ABIS[abi]["W"]
    if W == 4:
        if r.random() < 0.6:
            return r.choice(_INT_EDGES32)
        return r.randrange(-(2**31), 2**32)
    k = r.random()
    if k < 0.55:
        return r.choice(_INT_EDGES64)
    if k < 0.7:
        return r.randrange(-(2**63), 2**64)
    if k < 0.8:
        return r.randrange(-(2**31), 2**31)
    if k < 0.9:
        return r.getrandbits(16) << r.choice([0, 16, 32, 48])
    return r.randrange(-0x20000, 0x20000)


def known_triggers_c17(abi, sc):
    info = ABIS[abi]
    conv = sc["conv"] or info["conv"]
    out = []
    nregs = len(conv["registers"])
    for i, a in enumerate(sc["args"]):
        v = a["ret"] if a["k"] == "call" else a
        on_stack = i >= nregs
        if v["k"] == "sym" and info["cpu"] in ("x64", "ia32"):
            out.append("x86-symbol-arg")
        if v["k"] == "int":
            if info["cpu"] == "arm64" and -0xFFFF <= v["v"] < 0:
                out.append("arm64-neg16")
            if info["cpu"] == "x64" and on_stack and not (-(2**31) <= v["v"] < 2**31):
                out.append("x64-stack-int-beyond-simm32")
    if conv["shadow_space"] % conv["stack_alignment"]:
        out.append("shadow-not-multiple-of-alignment")
    if info["cpu"] == "arm64" and not conv["caller_cleanup"]:
        out.append("arm64-callee-cleanup")
    return out


def gen_c17(seed, params):
    streams = core.Streams(seed)
    abis = params.get("abis") or C17_ABIS
    abi = streams.get("gen.abi").choice([a for a in abis if a in C17_ABIS])
    info = ABIS[abi]
    W = info["W"]
    avoid = streams.get("gen.avoid").random() < params.get("avoid_known", 0.8)
    rc = streams.get("gen.conv")
    conv = None
    if rc.random() < 0.45:
        pool = [n for n in sorted(info["names"]) if info["names"][n][1] == "full" and info["names"][n][0] in info["pool"]]
        if info["cpu"] == "arm64":
            pool = [n for n in pool if n.startswith("x")]
        nreg = rc.choices([0, 1, 2, 3, 4, 6, 8], weights=[15, 10, 15, 15, 15, 15, 15])[0]
        nreg = min(nreg, len(pool))
        if rc.random() < 0.5:
            base = list(info["conv"]["registers"])
            regs = base[:nreg] if nreg <= len(base) else base + rc.sample([p for p in pool if p not in base], nreg - len(base))
        else:
            regs = rc.sample(pool, nreg)
        if info["cpu"] == "arm64":
            align, shadow = 16, 0
            cleanup = rc.random() < 0.8  # (callee cleanup on ARM64: finding F31, fixed)
        else:
            align = max(W, rc.choice([W, 8, 16, 16, 32, 64]))
            k = rc.random()
            if k < 0.4:
                shadow = 0
            elif k < 0.8:
                shadow = align * rc.randint(1, 3)
            else:
                shadow = W * rc.randint(1, 9)  # (not a multiple of the alignment: finding F32, fixed)
            cleanup = rc.random() < 0.6
        conv = {"registers": [_mixcase(rc, x) for x in regs], "stack_alignment": align, "caller_cleanup": cleanup, "shadow_space": shadow}
    ra = streams.get("gen.args")
    nargs = ra.choices(list(range(17)), weights=[6, 8, 8, 8, 7, 7, 7, 7, 6, 6, 5, 5, 4, 4, 4, 4, 4])[0]
    eff_conv = conv or info["conv"]
    nregs = len(eff_conv["registers"])
    args = []
    for i in range(nargs):
        k = ra.random()
        if k < 0.62:
            v = {"k": "int", "v": gen_int(ra, abi)}
        else:
            v = {"k": "sym", "name": ra.choice(SYMBOLS)}
        if avoid:
            if v["k"] == "sym" and info["cpu"] in ("x64", "ia32"):
                v = {"k": "int", "v": gen_int(ra, abi)}
            for _ in range(20):
                if v["k"] != "int":
                    break
                # (ARM64 small negative integers: finding F28, fixed)
                bad = info["cpu"] == "x64" and i >= nregs and not (-(2**31) <= v["v"] < 2**31)
                if not bad:
                    break
                v = {"k": "int", "v": gen_int(ra, abi)}
            else:
                v = {"k": "int", "v": 7 + i}
        if ra.random() < 0.2:
            v = {"k": "call", "ret": v}
        args.append(v)
    rk = streams.get("gen.constraints")
    kwargs = {}
    if info["cpu"] != "arm64":
        if rk.random() < 0.5:
            kwargs["align_stack"] = False
    elif rk.random() < 0.2:
        kwargs["align_stack"] = rk.random() < 0.5
    if rk.random() < 0.3:
        kwargs["preserve_caller_saved_registers"] = False
    if rk.random() < 0.25:
        kwargs["clobbers_flags"] = False
    if rk.random() < 0.3:
        # the arm64 flags spill needs one free register (C16 finding); keep some
        kwargs["scratch_registers"] = rk.randint(1, 3)
    if rk.random() < 0.15:
        names = sorted(info["names"])
        kwargs["clobbers_registers"] = sorted(rk.sample(names, rk.randint(0, 5)))
    if "scratch_registers" in kwargs:
        # what CallPatch will declare clobbered (unless overridden)
        if "clobbers_registers" in kwargs:
            clob = list(kwargs["clobbers_registers"])
        else:
            clob = list(eff_conv["registers"][: min(nargs, nregs)])
            if info["cpu"] == "arm64":
                clob += ["x30"] + (["x0"] if nargs > nregs else [])
        room = len(available_scratch(abi, {"clobbers_registers": clob, "reads_registers": []}))
        kwargs["scratch_registers"] = min(kwargs["scratch_registers"], room)
        if not kwargs["scratch_registers"]:
            del kwargs["scratch_registers"]
    func = gen_func(streams.get("gen.func"), abi, params)
    align_stack = kwargs.get("align_stack", info["cpu"] != "arm64")
    ri = streams.get("gen.init")
    if info["cpu"] == "arm64":
        init = gen_init(ri, abi)
    elif align_stack:
        init = gen_init(ri, abi, any_align=True)
    elif ri.random() < 0.85:
        init = gen_init(ri, abi, need_align=max(eff_conv["stack_alignment"], info["sp_step"]))
    else:
        init = gen_init(ri, abi)
    rh = streams.get("havoc")
    callee = {
        "seed": rh.getrandbits(32),
        "below": rh.choice([0, 8, 64, 256]),
        "shadow": rh.random() < 0.8,
        "args": rh.random() < 0.5,
        "regs": rh.random() < 0.8,
    }
    sc = {
        "engine": "machsim",
        "prop": "C17",
        "seed": seed,
        "sigma": _sigma(streams),
        "abi": abi,
        "func": func,
        "conv": conv,
        "args": args,
        "kwargs": kwargs,
        "init": init,
        "callee": callee,
        "signals": gen_signals(streams.get("faults"), params),
    }
    rp = streams.get("gen.prior")
    if rp.random() < 0.15 and info["conv"] is not None:
        # history: earlier in the same process a user derived a convention of
        # their own from ABI.calling_convention() by editing the description
        # it returned; the patch under test is built afterwards
        sc["prior_conv_edit"] = {"drop_registers": rp.randint(1, 3), "shadow_space": rp.choice([0, 8, 64]), "flip_cleanup": rp.random() < 0.5}
    if streams.get("gen.knob").random() < 0.1:
        sc["debug_log"] = True
    return sc


# --------------------------------------------------------------------------
# execution


class Sim:
    """One concrete execution of an emitted fragment."""

    def __init__(self, prop, sc, cap, stats):
        self.prop = prop
        self.sc = sc
        self.abi = sc["abi"]
        self.info = ABIS[self.abi]
        self.stats = stats
        self.W = self.info["W"]
        init = sc["init"]
        self.sp0 = init["sp"]
        little = self.info["cpu"] != "mips32"
        self.mem = mach_cpu.Memory(init["fill"], little)
        rs = random.Random(init["reg_seed"])
        mask = (1 << (8 * self.W)) - 1
        # linker
        self.symaddr = {}
        base = 0x400000 + rs.getrandbits(8) * 0x1000 + rs.getrandbits(6) * 16
        for i, name in enumerate(SYMBOLS):
            self.symaddr[name] = 0x600000 + i * 0x10000 + rs.getrandbits(12)
        self.symval = {}
        for name in SYMBOLS:
            v = rs.getrandbits(8 * self.W) | 0x0101
            if v == self.symaddr[name]:
                v ^= 0xFF00
            self.symval[name] = v & mask
            self.mem.write(self.symaddr[name], self.W, v, "data")
        self.mem.wlog.clear()
        link = {}
        import gtirb

        for off, e in cap["exprs"].items():
            if not isinstance(e, gtirb.SymAddrConst):
                raise core.HarnessError(f"machsim: unsupported symbolic expression {e!r}")
            attrs = sorted(a.name for a in e.attributes)
            if any(a not in ("LO12", "PLT") for a in attrs):
                raise core.HarnessError(f"machsim: unsupported symbolic expression attributes {attrs}")
            link[off] = (e.symbol.name, e.offset, attrs)
        if cap["sections"] != ([".data", ".text"] if sc.get("tail_section") else [".text"]):
            raise core.HarnessError(f"machsim: unexpected sections {cap['sections']}")
        self.cpu = mach_cpu.make_cpu(self.info["cpu"], self.mem, cap["data"], base, link, self.symaddr)
        cpu = self.cpu
        for name in sorted(cpu.regs):
            cpu.regs[name] = rs.getrandbits(8 * self.W)
        if "zero" in cpu.regs:
            cpu.regs["zero"] = 0
        cpu.sp = self.sp0
        cpu.flags = init["flags"]
        self.regs0 = dict(cpu.regs)
        self.flags0 = cpu.flags
        self.kinds = []
        self.body_sp = None
        self.sig_fired = 0

    # -- environment
    def viol(self, vclass, witness, sig):
        s = {"abi": self.abi}
        s.update(sig)
        w = {"abi": self.abi, "asm": [i.text for i in self.cpu.insns], "sp0": hex(self.sp0)}
        w.update(witness)
        raise core.Violation(self.prop, vclass, w, s)

    def deliver_signal(self, s):
        rz = self.info["redzone"]
        top = (self.cpu.sp - rz) & self.cpu.mask
        n = s["n"]
        rr = random.Random(s["seed"])
        self.mem.write_bytes(top - n, bytes(rr.getrandbits(8) for _ in range(n)), "signal")
        self.stats["fault.signal"] += 1
        self.kinds.append("SIG")

    def garbage(self, lo, n, seed, who):
        rr = random.Random(seed)
        self.mem.write_bytes(lo, bytes(rr.getrandbits(8) for _ in range(n)), who)


def _asm_lines(cpu):
    return [i.text for i in cpu.insns]


def _split_units(sim, nmarkers):
    cpu = sim.cpu
    marks = [k for k, ins in enumerate(cpu.insns) if cpu.is_marker(ins)]
    if len(marks) != nmarkers:
        raise core.HarnessError(f"machsim: expected {nmarkers} marker(s), found {len(marks)} in {_asm_lines(cpu)}")
    return marks


def _set_reg_partial(cpu, abi, canon_name, kind, v):
    W = ABIS[abi]["W"]
    mask = (1 << (8 * W)) - 1
    if canon_name == "zero":
        return
    old = cpu.regs[canon_name]
    if kind == "full":
        new = v & mask
    elif kind == "32":
        new = v & M32
    elif kind == "16":
        new = (old & ~0xFFFF) | (v & 0xFFFF)
    elif kind == "8l":
        new = (old & ~0xFF) | (v & 0xFF)
    elif kind == "8h":
        new = (old & ~0xFF00) | ((v & 0xFF) << 8)
    else:
        raise core.HarnessError(kind)
    cpu.regs[canon_name] = new & mask


def _flags_from(info, v, old):
    if info["cpu"] in ("x64", "ia32"):
        return (v & mach_cpu.X86_FLAG_MASK) | mach_cpu.X86_FLAG_FIXED
    if info["cpu"] == "arm64":
        return v & 0xF0000000
    return old


def _register_name(reg):
    return format(reg, "")


def execute_c16(sc, params, stats):
    import gtirb_rewriting
    from gtirb_rewriting.assembler import AsmSyntaxError
    from gtirb_rewriting.assembly import Constraints, X86Syntax
    from gtirb_rewriting.patch import Patch

    abi = sc["abi"]
    info = ABIS[abi]
    cons = sc["constraints"]
    func = sc["func"]
    prop = "C16"
    stats["abi." + abi] += 1
    stats["func." + func["kind"] + (".history" if func.get("history") else "")] += 1
    w = build_world(sc)
    if func.get("history") and func["kind"] != "none":
        history_session(w, sc)
        stats["probe.history_session"] += 1
    may_be_leaf = func["kind"] != "nonleaf" or bool(func.get("orphan_after"))

    constraints = Constraints(
        x86_syntax=X86Syntax.INTEL if cons.get("x86_syntax") == "intel" else X86Syntax.ATT,
        clobbers_flags=bool(cons["clobbers_flags"]),
        clobbers_registers=set(cons["clobbers_registers"]),
        scratch_registers=int(cons["scratch_registers"]),
        reads_registers=set(cons["reads_registers"]),
        align_stack=bool(cons["align_stack"]),
        preserve_caller_saved_registers=bool(cons["preserve_caller_saved_registers"]),
    )
    seen = []

    class Marker(Patch):
        def get_asm(self, ctx):
            seen.append(ctx)
            if sc.get("tail_section"):
                stats["knob.tail_section"] += 1
                return "nop\n.data\n.byte 17, 34\n"
            return "nop"

    patch = Marker(constraints)
    ctx = gtirb_rewriting.RewritingContext(w.m, w.functions, logger=_logger(sc))
    block, off = [(w.b0, 0), (w.b0, w.first_len), (w.b1, 0)][func.get("site", 0) % 3]
    if func.get("history") and block is w.b1:
        block, off = w.b0, 0
    if func.get("orphan_after"):
        block, off = w.b1, 0
        stats["probe.orphan_block_after_nonleaf"] += 1
    if sc.get("decoy"):
        # another patch of the same rewrite, applied just before, whose
        # constraints differ only in that it reads no registers: what it was
        # given must not leak into the patch under test
        import dataclasses

        class Decoy(Patch):
            def get_asm(self, ctx):
                return "nop"

        ctx.insert_at(block, off, Decoy(dataclasses.replace(constraints, reads_registers=set())))
        stats["knob.decoy"] += 1
    ctx.insert_at(block, off, patch)
    del _CAPTURE[:]
    satisfiable = cons["scratch_registers"] <= len(available_scratch(abi, cons))
    try:
        ctx.apply()
    except AsmSyntaxError as e:
        raise core.HarnessError(f"machsim: the library's own prologue/epilogue does not assemble: {e}")
    except NotImplementedError as e:
        if info["cpu"] == "mips32" and cons["align_stack"]:
            raise core.Rejected("align_stack on MIPS32 is a documented refusal")
        raise
    except (ValueError, IndexError, KeyError) as e:
        frames = [f.name for f in traceback.extract_tb(e.__traceback__)]
        where = [f for f in frames if f in ("_allocate_patch_registers", "_create_prologue_and_epilogue")]
        if not where:
            raise
        if "unable to allocate enough scratch registers" in str(e) and not satisfiable:
            raise core.Rejected("more scratch registers requested than the ABI can give")
        trig = known_triggers_c16(abi, cons, func)
        if "unable to allocate" in str(e):
            why = "refused-satisfiable-request"
        elif "unguarded-read-register-removal" in trig and where[-1] == "_allocate_patch_registers" and "list.remove" in str(e):
            why = "unguarded-read-register-removal"
        elif "no-free-flags-register" in trig and where[-1] == "_create_prologue_and_epilogue":
            why = "no-free-flags-register"
        else:
            why = "other"
        raise core.Violation(
            prop,
            "scratch-allocation",
            {"abi": abi, "constraints": cons, "exception": type(e).__name__, "message": str(e)[:200], "in": where[-1]},
            {"abi": abi, "cause": "allocator-raised", "exc": type(e).__name__, "why": why},
        )
    caps = [c for c in _CAPTURE if c["patch"] is patch]
    if len(caps) != 1 or len(seen) != 1:
        raise core.HarnessError(f"machsim: patch invoked {len(seen)} times, captured {len(caps)}")
    cap = caps[0]
    ictx = seen[0]
    sim = Sim(prop, sc, cap, stats)
    cpu = sim.cpu
    sp0 = sim.sp0
    W = info["W"]

    # ---- scratch registers (static part of the property)
    scratch = []
    for reg in ictx.scratch_registers:
        nm = _register_name(reg)
        scratch.append(canon(abi, nm)[0] if nm.lower() in info["names"] else nm.lower())
    reads = canon_set(abi, cons["reads_registers"])
    swit = {"constraints": cons, "scratch": scratch}
    if len(scratch) != cons["scratch_registers"]:
        sim.viol("scratch-allocation", swit, {"cause": "count"})
    if len(set(scratch)) != len(scratch):
        sim.viol("scratch-allocation", swit, {"cause": "duplicate"})
    if set(scratch) & reads:
        sim.viol("scratch-allocation", swit, {"cause": "read-register"})
    if any(s == info["sp"] or s in info["reserved"] or s not in cpu.regs for s in scratch):
        sim.viol("scratch-allocation", swit, {"cause": "reserved"})

    (mark,) = _split_units(sim, 1)
    units = [("insn", k) for k in range(mark)] + [("body-entry", None)]
    units += [("havoc", op) for op in sc["body"]] + [("body-exit", None)]
    units += [("insn", k) for k in range(mark + 1, len(cpu.insns))]
    sig_at = collections.defaultdict(list)
    for s in sc["signals"]:
        sig_at[s["at"] % (len(units) + 1)].append(s)

    declared = {}
    for n in cons["clobbers_registers"]:
        declared[n] = canon(abi, n)
    must = {}
    for n, (c, _) in sorted(declared.items()):
        must[c] = "clobber"
    for s in scratch:
        must.setdefault(s, "scratch")
    if cons["preserve_caller_saved_registers"]:
        for c in info["caller_saved"] + info["caller_saved_extra"]:
            must.setdefault(c, "caller-saved")
    must.pop(info["sp"], None)
    must.pop("zero", None)

    has_saves = bool(declared or cons["scratch_registers"] or cons["preserve_caller_saved_registers"] or cons["clobbers_flags"])
    body_stack = []
    phase = "prologue"
    rlog_pos = 0
    wlog_pos = 0

    def check_accesses(unit_text):
        nonlocal rlog_pos, wlog_pos
        mem = sim.mem
        for a in mem.wlog[wlog_pos:]:
            if a.addr + a.size > sp0:
                sim.viol(
                    "write-above-sp",
                    {"access": a.as_json(), "insn": unit_text, "phase": phase, "constraints": cons},
                    {"who": a.who},
                )
            if a.who == "code" and abi == "x64-elf" and may_be_leaf and a.addr + a.size > sp0 - 128 and a.addr < sp0:
                sim.viol(
                    "redzone-write",
                    {"access": a.as_json(), "insn": unit_text, "phase": phase, "constraints": cons, "func": func},
                    {
                        "cause": ("align_stack-only-leaf" if cons["align_stack"] and not has_saves else "saves"),
                        "first_insn": unit_text.split()[0],
                    },
                )
        wlog_pos = len(mem.wlog)
        for a in mem.rlog[rlog_pos:]:
            if a.who == "code" and a.owners != ["code"]:
                sim.viol(
                    "foreign-read",
                    {"access": a.as_json(), "insn": unit_text, "phase": phase, "constraints": cons, "signals": sc["signals"]},
                    {"owner": "+".join(a.owners), "insn": unit_text.split()[0], "phase": phase},
                )
        rlog_pos = len(mem.rlog)

    for ui in range(len(units) + 1):
        for s in sig_at.get(ui, ()):
            sim.deliver_signal(s)
            if phase == "body":
                stats["fault.signal_in_body"] += 1
            check_accesses("signal")
        if ui == len(units):
            break
        kind, arg = units[ui]
        sim.mem.step = ui
        if kind == "insn":
            ins = cpu.insns[arg]
            sim.kinds.append(ins.mnemonic)
            stats["units"] += 1
            try:
                ev = cpu.execute(ins)
            except mach_cpu.SPAlignmentFault as e:
                sim.viol("misaligned-body", {"fault": str(e), "phase": phase, "constraints": cons}, {"cause": "sp-alignment-fault", "phase": phase})
            if ev is not None:
                raise core.HarnessError(f"machsim: unexpected call in C16 fragment: {ins.text}")
            check_accesses(ins.text)
        elif kind == "body-entry":
            phase = "body"
            sim.body_sp = cpu.sp
            if cpu.sp != sp0 and abi == "x64-elf" and may_be_leaf and sp0 - cpu.sp >= 128:
                stats["probe.redzone_skipped"] += 1
            adj = ictx.stack_adjustment
            if adj is None:
                stats["probe.adjustment_none"] += 1
            elif (sp0 - cpu.sp) & cpu.mask != adj & cpu.mask:
                sim.viol(
                    "adjustment-mismatch",
                    {"reported": adj, "real": (sp0 - cpu.sp) & cpu.mask, "constraints": cons, "func": func},
                    {"align_stack": bool(cons["align_stack"])},
                )
            if cons["align_stack"]:
                stats["probe.align_stack"] += 1
                if cpu.sp % info["align"]:
                    sim.viol("misaligned-body", {"sp": hex(cpu.sp), "constraints": cons}, {"cause": "align_stack"})
            if cpu.sp > sp0:
                sim.viol("write-above-sp", {"sp_at_body": hex(cpu.sp), "constraints": cons}, {"who": "sp-above-start"})
            for c in sorted(reads):
                if c in cpu.regs and cpu.regs[c] != sim.regs0[c]:
                    stats["probe.read_register_changed_before_body"] += 1
        elif kind == "havoc":
            op = arg
            k = op["k"]
            sim.kinds.append("h." + k)
            if k == "set":
                if "r" in op:
                    if op["r"] not in declared:
                        continue
                    c, kd = declared[op["r"]]
                elif "s" in op:
                    if op["s"] >= len(scratch):
                        continue
                    c, kd = scratch[op["s"]], "full"
                else:
                    if not cons["preserve_caller_saved_registers"] or op["cs"] not in must:
                        continue
                    c, kd = op["cs"], "full"
                if c == info["sp"]:
                    continue  # the havoc body keeps the stack pointer balanced
                _set_reg_partial(cpu, abi, c, kd, op["v"])
                stats["havoc.set"] += 1
            elif k == "flags":
                if cons["clobbers_flags"]:
                    cpu.flags = _flags_from(info, op["v"], cpu.flags)
                    stats["havoc.flags"] += 1
            elif k == "push":
                cpu.push_word(op["v"], "body")
                body_stack.append(1)
                stats["havoc.push"] += 1
            elif k == "pop":
                if body_stack:
                    body_stack.pop()
                    cpu.pop_word("body")
            elif k == "wbelow":
                lo = (cpu.sp - op["off"] - op["n"]) & cpu.mask
                sim.garbage(lo, op["n"], op["seed"], "body")
                stats["havoc.wbelow"] += 1
            check_accesses("havoc " + k)
        elif kind == "body-exit":
            while body_stack:
                body_stack.pop()
                cpu.pop_word("body")
            if cpu.sp != sim.body_sp:
                raise core.HarnessError("havoc body left the stack unbalanced")
            phase = "epilogue"

    # ---- final state
    fin = {"constraints": cons, "func": func, "signals": sc["signals"], "scratch": scratch, "stack_adjustment": ictx.stack_adjustment}
    if cpu.sp != sp0:
        fin["sp_end"] = hex(cpu.sp)
        sim.viol("sp-not-restored", fin, {"delta": _bucket((cpu.sp - sp0) & cpu.mask, cpu.mask)})
    for c in sorted(must):
        if cpu.regs[c] != sim.regs0[c]:
            fin["reg"] = c
            fin["role"] = must[c]
            fin["expected"] = hex(sim.regs0[c])
            fin["got"] = hex(cpu.regs[c])
            sig = {"role": must[c]}
            if must[c] == "caller-saved":
                sig["reg"] = c
            sim.viol("reg-not-restored", fin, sig)
    if cons["clobbers_flags"] and cpu.flags != sim.flags0:
        fin["expected"] = hex(sim.flags0)
        fin["got"] = hex(cpu.flags)
        sim.viol("flags-not-restored", fin, {})
    # transparency beyond the property's text: probes (violations only with strict_transparency)
    strict = params.get("strict_transparency", False)
    for c in sorted(cpu.regs):
        if c in must or c == info["sp"]:
            continue
        if cpu.regs[c] != sim.regs0[c]:
            stats["probe.undeclared_register_changed"] += 1
            if strict:
                fin["reg"] = c
                sim.viol("reg-not-restored", fin, {"role": "undeclared"})
    if not cons["clobbers_flags"] and cpu.flags != sim.flags0:
        stats["probe.undeclared_flags_changed"] += 1
        if strict:
            sim.viol("flags-not-restored", fin, {"declared": False})
    return sim


def _bucket(delta, mask):
    if delta > mask // 2:
        delta -= mask + 1
    if abs(delta) <= 256:
        return delta
    return "far"


# ---- C17


def execute_c17(sc, params, stats):
    cleanups = []
    try:
        return _execute_c17(sc, params, stats, cleanups)
    finally:
        for c in cleanups:
            c()


def _execute_c17(sc, params, stats, cleanups):
    import gtirb_rewriting
    from gtirb_rewriting.abi import CallingConventionDesc
    from gtirb_rewriting.assembler import AsmSyntaxError
    from gtirb_rewriting.patch import InsertionContext
    from gtirb_rewriting.patches import CallPatch

    abi = sc["abi"]
    info = ABIS[abi]
    prop = "C17"
    func = sc["func"]
    stats["abi." + abi] += 1
    W = info["W"]
    w = build_world(sc)
    if func.get("history") and func["kind"] != "none":
        history_session(w, sc)
        stats["probe.history_session"] += 1
    convd = sc["conv"]
    conv = convd or info["conv"]
    conv_obj = None
    if convd is not None:
        conv_obj = CallingConventionDesc(
            registers=tuple(convd["registers"]),
            stack_alignment=convd["stack_alignment"],
            caller_cleanup=convd["caller_cleanup"],
            shadow_space=convd["shadow_space"],
        )
        stats["probe.custom_conv"] += 1
    callable_log = []

    def make_callable(idx, ret):
        def argfn(ctx):
            callable_log.append((idx, ctx))
            return w.syms[ret["name"]] if ret["k"] == "sym" else ret["v"]

        return argfn

    args = []
    expected = []  # per argument: ("int", v) / ("sym", name)
    for i, a in enumerate(sc["args"]):
        v = a["ret"] if a["k"] == "call" else a
        expected.append(v)
        if a["k"] == "call":
            args.append(make_callable(i, v))
            stats["probe.callable_args"] += 1
        elif a["k"] == "sym":
            args.append(w.syms[a["name"]])
        else:
            args.append(a["v"])
    for v in expected:
        stats["probe.symbol_args" if v["k"] == "sym" else "probe.int_args"] += 1
    kwargs = dict(sc["kwargs"])
    if "clobbers_registers" in kwargs:
        kwargs["clobbers_registers"] = set(kwargs["clobbers_registers"])
    seen = []
    texts = []

    class RecordingCallPatch(CallPatch):
        def get_asm(self, ctx):
            seen.append(ctx)
            t = CallPatch.get_asm(self, ctx)
            texts.append(t)
            return "nop\n" + t + "\nnop"

    prior = sc.get("prior_conv_edit")
    if prior:
        from gtirb_rewriting.abi import ABI

        edited = ABI.get(w.m).calling_convention()
        saved_fields = (edited.registers, edited.shadow_space, edited.caller_cleanup)
        # undone when the scenario is over (keeps the worker process
        # hermetic should the library hand out a shared object: the edit is
        # part of THIS scenario only)
        cleanups.append(lambda: (setattr(edited, "registers", saved_fields[0]), setattr(edited, "shadow_space", saved_fields[1]), setattr(edited, "caller_cleanup", saved_fields[2])))
        edited.registers = tuple(edited.registers[prior["drop_registers"] :])
        edited.shadow_space = prior["shadow_space"]
        if prior["flip_cleanup"]:
            edited.caller_cleanup = not edited.caller_cleanup
        stats["probe.prior_conv_edit"] += 1
    try:
        patch = RecordingCallPatch(w.syms["callee"], args, conv_obj, **kwargs)
    except ValueError as e:
        raise core.Rejected(f"CallPatch refused the convention: {e}")
    align_stack = patch.constraints.align_stack
    ctx = gtirb_rewriting.RewritingContext(w.m, w.functions, logger=_logger(sc))
    block, off = [(w.b0, 0), (w.b0, w.first_len), (w.b1, 0)][func.get("site", 0) % 3]
    if func.get("history") and block is w.b1:
        block, off = w.b0, 0
    ctx.insert_at(block, off, patch)
    del _CAPTURE[:]
    nregs = len(conv["registers"])
    try:
        ctx.apply()
    except AsmSyntaxError as e:
        if not texts:
            raise
        lines = ("nop\n" + texts[-1] + "\nnop").splitlines()
        ln = getattr(e, "lineno", None)
        bad = lines[ln - 1] if ln and 1 <= ln <= len(lines) else "?"
        raise core.Violation(
            prop,
            "asm-rejected",
            {"abi": abi, "message": str(e)[:200], "line": bad, "asm": texts[-1].splitlines(), "args": sc["args"], "conv": convd},
            {"abi": abi, "insn": bad.split()[0] if bad.split() else "?", "operand": _operand_class(bad)},
        )
    except (IndexError, ValueError) as e:
        frames = [f.name for f in traceback.extract_tb(e.__traceback__)]
        if "_allocate_patch_registers" in frames or "_create_prologue_and_epilogue" in frames:
            # owned by C16 (allocator refuses the constraints CallPatch declared)
            raise core.Desync(f"allocator raised {type(e).__name__}: {e}")
        raise
    caps = [c for c in _CAPTURE if c["patch"] is patch]
    if len(caps) != 1 or len(seen) != 1:
        raise core.HarnessError(f"machsim: patch invoked {len(seen)} times, captured {len(caps)}")
    ictx = seen[0]

    # ---- callables received the insertion context
    cw = {"args": sc["args"]}
    want_calls = [i for i, a in enumerate(sc["args"]) if a["k"] == "call"]
    got_calls = sorted(i for i, _ in callable_log)
    if got_calls != want_calls:
        raise core.Violation(prop, "callable-context", dict(cw, invoked=got_calls), {"abi": abi, "cause": "invocation-count"})
    for i, c in callable_log:
        ok = isinstance(c, InsertionContext) and c is ictx
        if not ok and isinstance(c, InsertionContext):
            ok = c == ictx
        if ok:
            in_function = bool(w.functions) and any(block in f.get_all_blocks() for f in w.functions)
            ok = c.module is w.m and c.block is block and c.offset == off and (c.function is None) == (not in_function)
        if not ok:
            raise core.Violation(prop, "callable-context", dict(cw, arg=i, got=repr(c)[:200]), {"abi": abi, "cause": "wrong-context"})

    # ---- the same patch object used for a second insertion: the argument
    # callables are asked again, with THAT insertion's context
    if want_calls:
        import dataclasses as _dc

        ctx2 = _dc.replace(ictx)
        n_before = len(callable_log)
        try:
            CallPatch.get_asm(patch, ctx2)
        except Exception as e:
            raise core.Violation(prop, "callable-context", dict(cw, error=f"{type(e).__name__}: {e}"[:200]), {"abi": abi, "cause": "second-use-raised"})
        again = callable_log[n_before:]
        if sorted(i for i, _ in again) != want_calls or any(c is not ctx2 for _, c in again):
            raise core.Violation(prop, "callable-context", dict(cw, invoked_again=sorted(i for i, _ in again)), {"abi": abi, "cause": "second-use-not-asked"})
        stats["probe.patch_reused"] += 1

    sim = Sim(prop, sc, caps[0], stats)
    cpu = sim.cpu
    sp0 = sim.sp0
    m1, m2 = _split_units(sim, 2)
    units = []
    for k, ins in enumerate(cpu.insns):
        if k == m1:
            units.append(("body-entry", None))
        elif k == m2:
            units.append(("body-exit", None))
        else:
            units.append(("insn", k))
            if m1 < k < m2 and ins.mnemonic in ("call", "bl"):
                units.append(("callee", None))
                units.append(("ret", None))
    sig_at = collections.defaultdict(list)
    for s in sc["signals"]:
        sig_at[s["at"] % (len(units) + 1)].append(s)
    ncalls = 0
    phase = "prologue"
    call_sp = None
    nstack = max(0, len(expected) - nregs)
    cal = sc["callee"]
    base_w = {"asm_body": texts[-1].splitlines(), "args": sc["args"], "conv": convd, "kwargs": sc["kwargs"], "stack_adjustment": ictx.stack_adjustment}
    conv_tag = "default" if convd is None else "custom"

    def expect_value(v):
        if v["k"] == "sym":
            return sim.symaddr[v["name"]] & cpu.mask
        return v["v"] & cpu.mask

    for ui in range(len(units) + 1):
        for s in sig_at.get(ui, ()):
            sim.deliver_signal(s)
        if ui == len(units):
            break
        kind, arg = units[ui]
        sim.mem.step = ui
        if kind == "insn":
            ins = cpu.insns[arg]
            is_call = phase == "body" and ins.mnemonic in ("call", "bl")
            if is_call:
                # ---------------- the oracle at the call instruction
                ncalls += 1
                call_sp = cpu.sp
                wit = dict(base_w, sp_at_call=hex(call_sp), sp_body_entry=hex(sim.body_sp))
                reserved = (sim.body_sp - call_sp) & cpu.mask
                if reserved > cpu.mask // 2 or reserved < conv["shadow_space"] + nstack * W:
                    sim.viol(
                        "shadow-space",
                        dict(wit, reserved=reserved if reserved <= cpu.mask // 2 else reserved - cpu.mask - 1, needed=conv["shadow_space"] + nstack * W),
                        {"conv": conv_tag},
                    )
                got_regs = {}
                for i, v in enumerate(expected):
                    if i < nregs:
                        got_regs[i] = cpu.regs[canon(abi, conv["registers"][i])[0]]
                    else:
                        got_regs[i] = sim.mem.peek((call_sp + conv["shadow_space"] + (i - nregs) * W) & cpu.mask, W)
                for i, v in enumerate(expected):
                    want = expect_value(v)
                    got = got_regs[i]
                    if got == want:
                        continue
                    where = "reg" if i < nregs else "stack"
                    elsewhere = [j for j in got_regs if j != i and got_regs[j] == want]
                    # is the value somewhere else in the argument area / registers?
                    aw = dict(wit, arg=i, where=where, expected=hex(want), got=hex(got), arg_desc=v)
                    if v["k"] == "sym":
                        aw["symbol_address"] = hex(sim.symaddr[v["name"]])
                        aw["value_stored_at_symbol"] = hex(sim.symval[v["name"]])
                    if elsewhere and not _ambiguous(expected, i, expect_value):
                        sim.viol("arg-register" if i < nregs else "arg-stack", dict(aw, found_at_arg=elsewhere), {"conv": conv_tag, "where": where})
                    if v["k"] == "sym":
                        if got == sim.symval[v["name"]]:
                            sim.viol("arg-value", aw, {"arg": "symbol", "got": "value-stored-at-symbol", "where": where})
                        sim.viol("arg-value", aw, {"arg": "symbol", "got": "other", "where": where})
                    sim.viol("arg-value", aw, {"arg": "int:" + int_class(v["v"]), "where": where})
                # alignment
                al = conv["stack_alignment"]
                if align_stack:
                    pre = info["align"] % al == 0
                else:
                    pre = sp0 % al == 0 and ictx.stack_adjustment is not None
                if pre:
                    stats["probe.call_align_checked"] += 1
                    if call_sp % al:
                        sim.viol(
                            "call-misaligned",
                            dict(wit, alignment=al, sp_mod=call_sp % al, align_stack=bool(align_stack), sp0_mod=sp0 % al),
                            {"conv": conv_tag, "align_stack": bool(align_stack), "shadow_aligned": conv["shadow_space"] % al == 0},
                        )
                else:
                    stats["probe.call_align_skipped"] += 1
                if nstack:
                    stats["probe.stack_args"] += 1
            sim.kinds.append(ins.mnemonic)
            stats["units"] += 1
            try:
                ev = cpu.execute(ins)
            except mach_cpu.SPAlignmentFault as e:
                sim.viol("call-misaligned", dict(base_w, fault=str(e), phase=phase), {"cause": "sp-alignment-fault", "phase": phase})
            if ev is not None:
                if not is_call:
                    raise core.HarnessError(f"machsim: call outside the body: {ins.text}")
                if ev[1] != "callee":
                    sim.viol("arg-register", dict(base_w, called=ev[1]), {"cause": "wrong-callee"})
        elif kind == "callee":
            sim.kinds.append("callee")
            rr = random.Random(cal["seed"])
            spc = cpu.sp
            if cal.get("below"):
                sim.garbage((spc - cal["below"]) & cpu.mask, cal["below"], rr.getrandbits(32), "callee")
            ret_slot = W if info["cpu"] in ("x64", "ia32") else 0
            if cal.get("shadow") and conv["shadow_space"]:
                sim.garbage((spc + ret_slot) & cpu.mask, conv["shadow_space"], rr.getrandbits(32), "callee")
            if cal.get("args") and nstack:
                sim.garbage((spc + ret_slot + conv["shadow_space"]) & cpu.mask, nstack * W, rr.getrandbits(32), "callee")
            if cal.get("regs"):
                for c in info["caller_saved"]:
                    if c == "x30":
                        continue
                    cpu.regs[c] = rr.getrandbits(8 * W)
                cpu.flags = _flags_from(info, rr.getrandbits(32), cpu.flags)
            stats["havoc.callee"] += 1
        elif kind == "ret":
            sim.kinds.append("ret")
            extra = 0 if conv["caller_cleanup"] else nstack * W
            ra = cpu.ret(extra)
            if info["cpu"] in ("x64", "ia32") and ra != (cpu.base + cpu.insns[units[ui - 2][1]].off + cpu.insns[units[ui - 2][1]].size) & cpu.mask:
                raise core.HarnessError("return address overwritten")
        elif kind == "body-entry":
            phase = "body"
            sim.body_sp = cpu.sp
            if ictx.stack_adjustment is None:
                stats["probe.adjustment_none"] += 1
            else:
                stats["probe.adjustment.%d" % min(ictx.stack_adjustment // 64 * 64, 256)] += 1
        elif kind == "body-exit":
            phase = "epilogue"
            if ncalls != 1:
                sim.viol("arg-register", dict(base_w, calls=ncalls), {"cause": "call-count"})
            if cpu.sp != sim.body_sp:
                sim.viol(
                    "sp-not-neutral",
                    dict(base_w, sp_body_entry=hex(sim.body_sp), sp_body_exit=hex(cpu.sp), caller_cleanup=conv["caller_cleanup"]),
                    {"where": "body", "conv": conv_tag, "caller_cleanup": bool(conv["caller_cleanup"])},
                )
    if cpu.sp != sp0:
        sim.viol("sp-not-neutral", dict(base_w, sp_end=hex(cpu.sp)), {"where": "patch", "conv": conv_tag, "caller_cleanup": bool(conv["caller_cleanup"])})
    return sim


def _ambiguous(expected, i, expect_value):
    """Two arguments with the same expected value: finding the value at
    another position says nothing about misplacement."""
    want = expect_value(expected[i])
    return sum(1 for v in expected if expect_value(v) == want) > 1


def _operand_class(line):
    parts = line.replace(",", " ").split()
    if len(parts) < 2:
        return "?"
    last = parts[-1].lstrip("#")
    try:
        if last.lower().startswith("0x-"):
            v = -int(last[3:], 16)
        else:
            v = int(last, 0)
        return "int:" + int_class(v)
    except ValueError:
        return "symbol" if last[:1].isalpha() or last[:1] == "_" else "other"


# --------------------------------------------------------------------------
# engine interface


def run(prop, seed, params):
    params = dict(params or {})
    if prop == "C16":
        sc = gen_c16(seed, params)
    elif prop == "C17":
        sc = gen_c17(seed, params)
    else:
        raise core.HarnessError(f"machsim does not implement {prop}")
    return sc, execute(prop, sc, params)


def replay(prop, scenario, params):
    return execute(prop, scenario, dict(params or {}))


def execute(prop, sc, params):
    _install_capture()
    sigma = sc["sigma"]
    core.reseed(sigma["uuid_seed"], sigma["salt"])
    stats = collections.Counter()
    if sc.get("debug_log"):
        stats["knob.debug_log"] += 1
    sim = None
    try:
        if prop == "C16":
            sim = execute_c16(sc, params, stats)
        elif prop == "C17":
            sim = execute_c17(sc, params, stats)
        else:
            raise core.HarnessError(f"machsim does not implement {prop}")
        res = core.result_ok(dict(stats))
        il = [core.digest(sim.kinds)]
    except core.Violation as v:
        res = core.result_violation(v, dict(stats))
        il = []
    except core.Rejected as e:
        res = {"verdict": core.Verdict.REJECTED, "why": str(e), "stats": dict(stats)}
        il = []
    except core.Desync as e:
        res = {"verdict": core.Verdict.DESYNC, "why": str(e)[:300], "stats": dict(stats)}
        il = []
    finally:
        del _CAPTURE[:]
    body = {k: v for k, v in sc.items() if k not in ("sigma", "seed")}
    if prop == "C16":
        c = sc["constraints"]
        nontrivial = bool(
            c["clobbers_registers"] or c["clobbers_flags"] or c["align_stack"] or c["preserve_caller_saved_registers"] or c["scratch_registers"] or c["reads_registers"]
        )
    else:
        nontrivial = len(sc["args"]) >= 1
    res["meta"] = {"sdig": core.digest(body), "nontrivial": nontrivial, "interleavings": il, "sigma": core.digest(sigma)}
    return res


def describe(sc):
    d = {"abi": sc["abi"], "func": sc["func"], "sp": hex(sc["init"]["sp"]), "signals": [(s["at"], s["n"]) for s in sc["signals"]], "sigma": sc["sigma"]}
    if sc.get("prop") == "C16" or "constraints" in sc:
        d["constraints"] = sc["constraints"]
        d["body"] = [_op_str(o) for o in sc["body"]]
    else:
        d["conv"] = sc["conv"]
        d["args"] = [_arg_str(a) for a in sc["args"]]
        d["kwargs"] = sc["kwargs"]
    return d


def _op_str(o):
    if o["k"] == "set":
        tgt = o.get("r") or (f"scratch{o['s']}" if "s" in o else "cs:" + o["cs"])
        return f"set {tgt}={o['v']:#x}"
    if o["k"] == "flags":
        return f"flags={o['v']:#x}"
    if o["k"] == "push":
        return f"push {o['v']:#x}"
    if o["k"] == "wbelow":
        return f"wbelow off={o['off']} n={o['n']}"
    return o["k"]


def _arg_str(a):
    if a["k"] == "call":
        return "callable->" + _arg_str(a["ret"])
    if a["k"] == "sym":
        return "sym:" + a["name"]
    return str(a["v"])


# --------------------------------------------------------------------------
# shrinking


def shrink_candidates(prop, sc):
    def mod(f):
        c = copy.deepcopy(sc)
        f(c)
        return c

    if sc.get("debug_log"):
        yield mod(lambda c: c.pop("debug_log"))
    if sc.get("tail_section"):
        yield mod(lambda c: c.pop("tail_section"))
    if sc.get("decoy"):
        yield mod(lambda c: c.pop("decoy"))
    # signals
    if sc["signals"]:
        yield mod(lambda c: c.__setitem__("signals", []))
        for i in range(len(sc["signals"])):
            yield mod(lambda c, i=i: c["signals"].pop(i))
    if sc["func"].get("amnesia"):
        yield mod(lambda c: c["func"].pop("amnesia"))
    if sc["func"].get("history"):
        yield mod(lambda c: (c["func"].__setitem__("history", False), c["func"].pop("amnesia", None)))
    if sc.get("prior_conv_edit"):
        yield mod(lambda c: c.pop("prior_conv_edit"))
    if sc["func"].get("site"):
        yield mod(lambda c: c["func"].__setitem__("site", 0))
    if prop == "C16":
        if sc["body"]:
            yield mod(lambda c: c.__setitem__("body", []))
            n = len(sc["body"])
            if n > 3:
                yield mod(lambda c: c.__setitem__("body", c["body"][: n // 2]))
                yield mod(lambda c: c.__setitem__("body", c["body"][n // 2 :]))
            for i in range(n):
                yield mod(lambda c, i=i: c["body"].pop(i))
        cons = sc["constraints"]
        if len(cons["clobbers_registers"]) > 1:
            yield mod(lambda c: c["constraints"].__setitem__("clobbers_registers", []))
            h = len(cons["clobbers_registers"]) // 2
            yield mod(lambda c: c["constraints"].__setitem__("clobbers_registers", c["constraints"]["clobbers_registers"][:h]))
            yield mod(lambda c: c["constraints"].__setitem__("clobbers_registers", c["constraints"]["clobbers_registers"][h:]))
        for i in range(len(cons["clobbers_registers"])):
            yield mod(lambda c, i=i: c["constraints"]["clobbers_registers"].pop(i))
        for i in range(len(cons["reads_registers"])):
            yield mod(lambda c, i=i: c["constraints"]["reads_registers"].pop(i))
        for key in ("clobbers_flags", "align_stack", "preserve_caller_saved_registers"):
            if cons[key]:
                yield mod(lambda c, key=key: c["constraints"].__setitem__(key, False))
        if cons["scratch_registers"]:
            yield mod(lambda c: c["constraints"].__setitem__("scratch_registers", 0))
            yield mod(lambda c: c["constraints"].__setitem__("scratch_registers", c["constraints"]["scratch_registers"] - 1))
        if cons.get("x86_syntax") != "att":
            yield mod(lambda c: c["constraints"].__setitem__("x86_syntax", "att"))
        for i, o in enumerate(sc["body"]):
            if o.get("v") not in (None, 0, 1):
                yield mod(lambda c, i=i: c["body"][i].__setitem__("v", 1))
    else:
        n = len(sc["args"])
        if n > 1:
            yield mod(lambda c: c.__setitem__("args", c["args"][: n // 2]))
            yield mod(lambda c: c.__setitem__("args", c["args"][n // 2 :]))
        for i in reversed(range(n)):
            yield mod(lambda c, i=i: c["args"].pop(i))
        for i, a in enumerate(sc["args"]):
            if a["k"] == "call":
                yield mod(lambda c, i=i: c["args"].__setitem__(i, c["args"][i]["ret"]))
            v = a["ret"] if a["k"] == "call" else a
            if v["k"] == "sym":
                yield mod(lambda c, i=i: _set_arg(c, i, {"k": "int", "v": 3 + i}))
            elif v["v"] != 3 + i:
                yield mod(lambda c, i=i: _set_arg(c, i, {"k": "int", "v": 3 + i}))
        if sc["conv"] is not None:
            yield mod(lambda c: c.__setitem__("conv", None))
            if sc["conv"]["shadow_space"]:
                yield mod(lambda c: c["conv"].__setitem__("shadow_space", 0))
            if not sc["conv"]["caller_cleanup"]:
                yield mod(lambda c: c["conv"].__setitem__("caller_cleanup", True))
            if sc["conv"]["stack_alignment"] != ABIS[sc["abi"]]["conv"]["stack_alignment"]:
                yield mod(lambda c: c["conv"].__setitem__("stack_alignment", ABIS[c["abi"]]["conv"]["stack_alignment"]))
            for i in reversed(range(len(sc["conv"]["registers"]))):
                yield mod(lambda c, i=i: c["conv"]["registers"].pop(i))
        for k in sorted(sc["kwargs"]):
            yield mod(lambda c, k=k: c["kwargs"].pop(k))
        for k in ("below", "shadow", "args", "regs"):
            if sc["callee"].get(k):
                yield mod(lambda c, k=k: c["callee"].__setitem__(k, 0))
    if sc["func"].get("orphan_after"):
        yield mod(lambda c: c["func"].pop("orphan_after"))
    if sc["func"].get("unlabelled_edge"):
        yield mod(lambda c: c["func"].pop("unlabelled_edge"))
    if sc["func"]["kind"] != "nonleaf":
        yield mod(lambda c: c["func"].update({"kind": "nonleaf", "history": False}))
    if sc["sigma"].get("salt"):
        yield mod(lambda c: c["sigma"].__setitem__("salt", 0))


def _set_arg(c, i, v):
    if c["args"][i]["k"] == "call":
        c["args"][i]["ret"] = v
    else:
        c["args"][i] = v
