"""Check configuration of the ctsim engine (merged into sim/props.py by the lead)."""

PROPS = {
    "C20": {
        "engine": "ctsim",
        "level": "exploration",
        "quick_runs": 40000,
        "thorough_runs": 800000,
        "quick_wall": 240,
        "thorough_wall": 2400,
        # converting operations under a suspended get_references generator are
        # outside 'sequences of the containers' public operations' (DESIGN 4.3)
        "params": {"interleave_convert_p": 0.0},
        "rule": "each run draws one of six container machines (ReferenceCache over a real gtirb module, ReturnEdgeCache/make_return_cache, "
        "BlockOrdering, LinkedListNode, OffsetMapping, IdentitySet), a small random setup and a history of 3-40 public operations "
        "(with context enter/exit/raise, original-CFG mutation, ir.cfg rebinding, abandoned and suspended get_references generators as fault/"
        "schedule steps) and compares the container with a trivial reference model after every operation; distinct = distinct "
        "(machine, setup, ops) digest; non-trivial = at least two operations were executed and at least one of them changed the reference model",
        "interleaving_measure": "distinct per-run sequences of (machine, executed op kinds)",
        "real_vs_stub": "real: gtirb_rewriting._modify.cache (ReferenceCache, RefNode, ReturnEdgeCache, make_return_cache, CFGModifiedError), "
        "gtirb_rewriting._adt (BlockOrdering, LinkedListNode, OffsetMapping, IdentitySet), gtirb (Module/Symbol referent index, CFG on networkx, "
        "Offset); simulated: the client (operation histories, bodies of the with-blocks incl. raised exceptions, mutation of the original CFG, "
        "rebinding ir.cfg, generator consumption schedules), UUID source, gtirb node hashing, RefNode hashing (serial number instead of memory "
        "address), PYTHONHASHSEED; oracle: dict symbol->(block, at_end), set of edges, list of lists, dict of dicts, set of object indices",
        "assumptions": [
            "only operations allowed by the docstrings/asserts are generated: to_block=None only when the block has no references and cannot be a key of the "
            "cache's table; plain `symbol.referent = x` only at symbol creation or while the symbol is known to be direct (after get_referent/set_referent/"
            "being yielded/apply); the ReferenceCache context is not re-entered",
            "while a get_references generator is suspended only operations that leave that block's reference set unchanged in the reference semantics are run: "
            "tier 'disjoint' runs only operations that do not mention the block or its symbols at all; tier 'convert' (params interleave_convert_p) also runs "
            "get_referent / get_references / apply / context exit, which are pure reads in the reference semantics but convert references in the cache; violations "
            "seen under a suspended generator carry sig.ctx = interleaved-<tier>",
            "the read-only walk of ReferenceCache._referents/_references (parent pointers up to the root pair, children downward) is treated as the cache's "
            "answer for symbols that were not queried",
            "CFGModifiedError is demanded iff the original CFG's edge set at exit differs from its edge set at entry (a 64-bit xor collision of edge hashes "
            "would be reported as a genuine miss) or ir.cfg is not the cache at exit; after a modification that was undone, or a rebind that was undone, both "
            "outcomes are accepted; when the body raises, the body's exception (or CFGModifiedError if something was modified) must come out",
            "BlockOrdering: sequences passed to add_detached_blocks/insert_blocks_after are re-iterable tuples/lists without duplicates inside one call "
            "(one-shot iterators and duplicates are undocumented); an operation on an unordered block must raise KeyError or ValueError and change nothing",
            "OffsetMapping: the model is literally a dict of dicts sharing the caller's inner dict objects, so an element keeps an empty inner dict after its "
            "last Offset is deleted; clear()/popitem() follow the MutableMapping[Offset] mixins (every Offset removed, elements stay); iteration order is "
            "compared as a multiset",
            "IdentitySet: operands of the in-place/binary operators are lists, tuples or IdentitySets, comparisons are between IdentitySets only (a builtin "
            "set operand would bring its own equality-based membership)",
            "wrong-error signatures carry an extra tag got=<exception type> so that one documented-error defect does not hide another",
            "params avoid_known_p (default 0.8): that fraction of runs steers away from the triggers of the two findings reported for this engine "
            "(a tuple as the non-mapping value of OffsetMapping.__setitem__; converting operations under a suspended get_references generator, "
            "which otherwise occur in interleave_convert_p=0.3 of the remaining ReferenceCache runs), so that they cannot hide neighbours",
        ],
    },
}
