"""asmsim: fragmentation schedules for Assembler.assemble (C13, DESIGN 4.1).

The same text delivered in different chunkings must give the same result, as
long as no chunk refers to a label defined in a later chunk.  For each
sampled text ALL cut sets over up to 8 line boundaries are enumerated
(2^k executions), sampled beyond."""

import collections
import copy
import itertools

from . import core

LINES_X64 = [
    ("insn", "nop"),
    ("insn", "pushq %rax"),
    ("insn", "xorl %eax, %eax"),
    ("insn", "movl $0x{imm:x}, %eax"),
    ("term", "ret"),
    ("term", "jmp *%rax"),
    ("term", "call *%rax"),
]


def _gen_text(rng, ctx):
    """-> list of line dicts; references only go backwards (to labels defined
    in an earlier or the same line position) or to module symbols/externs."""
    n = rng.randint(2, 10)
    lines = []
    defined = []
    section = ".text"
    in_data = False
    undef_used = []
    for i in range(n):
        r = rng.random()
        if r < 0.12:
            nm = f".Lt{len(defined)}" if rng.random() < 0.7 else f"g{len(defined)}_{rng.randint(0, 999)}"
            defined.append(nm)
            lines.append({"t": "label", "s": nm + ":", "name": nm})
        elif r < 0.2 and ctx["allow_sections"]:
            section = rng.choice([".data", ".text", ".mydata"] if ctx.get("elf") else [".data", ".text"])
            in_data = section != ".text"
            lines.append({"t": "section", "s": '.section .mydata,"aw",@progbits' if section == ".mydata" else section})
        elif in_data or r < 0.35:
            k = rng.random()
            if k < 0.5:
                lines.append({"t": "data", "s": ".byte " + ", ".join(str(rng.getrandbits(8)) for _ in range(rng.randint(1, 4)))})
            elif k < 0.65:
                lines.append({"t": "data", "s": '.string "s%d"' % rng.randint(0, 99)})
            elif k < 0.8:
                lines.append({"t": "data", "s": ".zero %d" % rng.randint(1, 4)})
            elif defined + ctx["module_syms"]:
                lines.append({"t": "data", "s": ".quad " + rng.choice(defined + ctx["module_syms"])})
            else:
                lines.append({"t": "data", "s": ".byte 7"})
        elif r < 0.6:
            kind, tmpl = rng.choice(LINES_X64)
            lines.append({"t": kind, "s": tmpl.format(imm=rng.getrandbits(24))})
        elif r < 0.85:
            pool = defined + ctx["module_code_syms"] + ctx["externs"]
            if ctx.get("undef") and rng.random() < 0.3:
                u = rng.choice(ctx["undef"])
                pool = pool + [u]
            if not pool:
                lines.append({"t": "insn", "s": "nop"})
                continue
            tgt = rng.choice(pool)
            op = rng.choice(["jmp", "je", "call"])
            lines.append({"t": "term", "s": f"{op} {tgt}", "ref": tgt})
        else:
            pool = defined + ctx["module_syms"]
            if pool:
                lines.append({"t": "insn", "s": f"leaq {rng.choice(pool)}(%rip), %rax"})
            else:
                lines.append({"t": "insn", "s": "nop"})
    return lines


def run(prop, seed, params):
    streams = core.Streams(seed)
    r = streams.get("gen")
    scenario = {
        "engine": "asmsim",
        "kind": "asm",
        "seed": seed,
        "sigma": {"uuid_seed": streams.get("sched").getrandbits(48), "salt": streams.get("sched").getrandbits(64), "hashseed": core.hashseed_of(seed)},
        "fmt": r.choice(["elf", "elf", "pe"]),
        "pie": r.random() < 0.5,
        "allow_undef": r.random() < 0.3,
        "module_code_syms": [f"mc{i}" for i in range(r.randint(0, 2))],
        "module_data_syms": [f"md{i}" for i in range(r.randint(0, 2))],
        "externs": [f"ex{i}" for i in range(r.randint(0, 2))],
        "temp_suffix": r.choice([None, "_7"]),
        "trivially_unreachable": r.random() < 0.3,
    }
    ctx = {
        "allow_sections": r.random() < 0.5 and r.random() >= params.get("avoid_known", 0.8),
        "elf": scenario["fmt"] == "elf",
        "module_syms": scenario["module_code_syms"] + scenario["module_data_syms"],
        "module_code_syms": scenario["module_code_syms"],
        "externs": scenario["externs"],
        "undef": [f"un{i}" for i in range(2)] if scenario["allow_undef"] else [],
    }
    scenario["lines"] = _gen_text(r, ctx)
    # a fault: a chunk that raises in the middle of a chunk history
    if r.random() < 0.15:
        scenario["fault"] = {"at": r.randrange(len(scenario["lines"])), "kind": r.choice(["syntax", "undef", "redef", "redef-own", "redef-own"])}
    result = execute(prop, scenario, params)
    return scenario, result


def replay(prop, scenario, params):
    return execute(prop, scenario, params)


def _module(scenario):
    import gtirb
    from gtirb_test_helpers import add_code_block, add_data_block, add_data_section, add_proxy_block, add_symbol, add_text_section, create_test_module

    fmt = gtirb.Module.FileFormat.ELF if scenario["fmt"] == "elf" else gtirb.Module.FileFormat.PE
    ir, m = create_test_module(fmt, gtirb.Module.ISA.X64, ["DYN"] if scenario.get("pie") else ["EXEC"])
    _, bi = add_text_section(m, 0x1000)
    for n in scenario["module_code_syms"]:
        add_symbol(m, n, add_code_block(bi, b"\x90\xc3"))
    _, di = add_data_section(m, 0x4000)
    for n in scenario["module_data_syms"]:
        add_symbol(m, n, add_data_block(di, b"\x01\x02\x03\x04"))
    for n in scenario["externs"]:
        add_symbol(m, n, add_proxy_block(m))
    return ir, m


def _dump_result(res):
    """Canonical dump of an Assembler.Result (UUID free)."""
    import gtirb

    loc = {}
    out = {"sections": []}
    for name in sorted(res.sections):
        s = res.sections[name]
        for i, b in enumerate(s.blocks):
            loc[id(b)] = (name, i)
        out["sections"].append(
            {
                "name": name,
                "data": bytes(s.data).hex(),
                "blocks": [(b.offset, b.size, type(b).__name__) for b in s.blocks],
                "symexprs": sorted((off, _expr(e, res), s.symbolic_expression_sizes.get(off)) for off, e in s.symbolic_expressions.items()),
                "alignment": sorted((loc[id(b)], a) for b, a in s.alignment.items() if id(b) in loc),
                "types": sorted((loc[id(b)], str(t)) for b, t in s.block_types.items() if id(b) in loc),
                "flags": sorted(f.name for f in s.flags),
            }
        )

    def node(n):
        if id(n) in loc:
            return ("block",) + loc[id(n)]
        if isinstance(n, gtirb.ProxyBlock):
            names = sorted(sym.name for sym in res.symbols if sym.referent is n)
            return ("proxy", tuple(names)) if names else ("proxy", "module" if n.module is not None else "anon")
        if isinstance(n, gtirb.ByteBlock):
            return ("module-block", n.address)
        return ("other", type(n).__name__)

    out["cfg"] = sorted(((node(e.source), node(e.target), (e.label.type.name, bool(e.label.conditional), bool(e.label.direct)) if e.label else None) for e in res.cfg), key=repr)
    out["symbols"] = sorted(((s.name, node(s.referent) if s.referent is not None else None, bool(s.at_end)) for s in res.symbols), key=repr)
    out["nproxies"] = len(res.proxies)
    out["text"] = res.text_section.name if res.sections else None
    return out


def _expr(e, res):
    import gtirb

    def sym(s):
        return (s.name, "module" if s.module is not None else "local")

    if isinstance(e, gtirb.SymAddrConst):
        return ("const", sym(e.symbol), e.offset, tuple(sorted(a.name for a in e.attributes)))
    if isinstance(e, gtirb.SymAddrAddr):
        return ("diff", sym(e.symbol1), sym(e.symbol2), e.scale, e.offset)
    return ("other", repr(e))


def _assemble(scenario, m, chunks):
    from gtirb_rewriting.assembler import Assembler

    a = Assembler(
        m,
        temp_symbol_suffix=scenario.get("temp_suffix"),
        trivially_unreachable=bool(scenario.get("trivially_unreachable")),
        allow_undef_symbols=bool(scenario.get("allow_undef")),
    )
    for ch in chunks:
        a.assemble("\n".join(ch) + "\n")
    return a.finalize()


def _valid_cut(lines, cut):
    """No chunk may refer to a label defined in a later chunk."""
    defined_at = {}
    for i, l in enumerate(lines):
        if l["t"] == "label":
            defined_at.setdefault(l["name"], i)
    chunk_of = []
    c = 0
    for i in range(len(lines)):
        if i in cut:
            c += 1
        chunk_of.append(c)
    for i, l in enumerate(lines):
        ref = l.get("ref")
        if ref in defined_at and chunk_of[defined_at[ref]] > chunk_of[i]:
            return False
    return True


def execute(prop, scenario, params):
    core.reseed(scenario["sigma"]["uuid_seed"], scenario["sigma"]["salt"])
    from gtirb_rewriting.assembler import AsmSyntaxError, MultipleDefinitionsError, UndefSymbolError

    stats = collections.Counter()
    lines = scenario["lines"]
    text = [l["s"] for l in lines]
    fault = scenario.get("fault")
    meta = {"sigma": core.digest(scenario["sigma"]), "interleavings": []}
    try:
        if fault:
            # (redef-own: a label of the text itself - temporary ones get the
            # caller's suffix - is defined a second time)
            own = [l["name"] for l in lines if l["t"] == "label"]
            bad = {
                "syntax": "this is not assembly !!",
                "undef": "jmp never_defined_anywhere",
                "redef": (scenario["module_code_syms"] + scenario["module_data_syms"] + ["mc_none"])[0] + ":",
                "redef-own": (own[fault["at"] % len(own)] if own else "none") + ":",
            }[fault["kind"]]
            want = {"syntax": AsmSyntaxError, "undef": UndefSymbolError, "redef": MultipleDefinitionsError, "redef-own": MultipleDefinitionsError}[fault["kind"]]
            if fault["kind"] == "redef" and not (scenario["module_code_syms"] + scenario["module_data_syms"]):
                fault = None
            elif fault["kind"] == "redef-own" and not own:
                fault = None
            elif fault["kind"] == "undef" and scenario.get("allow_undef"):
                fault = None
        if fault:
            ir, m = _module(scenario)
            t2 = text[: fault["at"]] + [bad] + text[fault["at"] :]
            stats["fault." + fault["kind"]] += 1
            try:
                _assemble(scenario, m, [t2[: fault["at"]], t2[fault["at"] :]] if fault["at"] else [t2])
            except want:
                pass
            except Exception as e:
                if isinstance(e, (AsmSyntaxError, UndefSymbolError, MultipleDefinitionsError)) or type(e).__name__ == "UnsupportedAssemblyError":
                    # another documented assembler error came first
                    stats["probe.other_assembler_error_first"] += 1
                else:
                    raise core.Violation("C13", "wrong-error", {"fault": fault, "got": f"{type(e).__name__}: {e}"[:200]}, {"kind": fault["kind"], "got": type(e).__name__})
            else:
                raise core.Violation("C13", "wrong-error", {"fault": fault, "got": "no error"}, {"kind": fault["kind"], "got": "none"})
            verdict = core.result_ok(dict(stats))
            raise StopIteration
        ir, m = _module(scenario)
        try:
            whole = _dump_result(_assemble(scenario, m, [text]))
        except Exception as e:
            if type(e).__name__ in ("UnsupportedAssemblyError", "UndefSymbolError", "MultipleDefinitionsError", "AsmSyntaxError"):
                verdict = {"verdict": core.Verdict.REJECTED, "why": f"{type(e).__name__}: {e}"[:200], "stats": dict(stats)}
                raise StopIteration
            raise
        stats["executions"] += 1
        n = len(lines)
        bounds = list(range(1, n))
        if len(bounds) <= 8:
            cuts = [set(c) for k in range(1, len(bounds) + 1) for c in itertools.combinations(bounds, k)]
            stats["enumerated_texts"] += 1
        else:
            import random

            rr = random.Random(core.derive(scenario["seed"], "cuts"))
            cuts = [set(b for b in bounds if rr.random() < 0.35) for _ in range(64)]
            cuts = [c for c in cuts if c]
        nproxy_names = set()
        for cut in cuts:
            if not _valid_cut(lines, cut):
                stats["skipped_forward_reference"] += 1
                continue
            chunks = []
            cur = []
            for i, t in enumerate(text):
                if i in cut:
                    chunks.append(cur)
                    cur = []
                cur.append(t)
            chunks.append(cur)
            ir2, m2 = _module(scenario)
            try:
                got = _dump_result(_assemble(scenario, m2, chunks))
            except Exception as e:
                raise core.Violation(
                    "C13",
                    "chunk-diff",
                    {"cut": sorted(cut), "what": "chunked assembly raised", "error": f"{type(e).__name__}: {e}"[:200], "text": text},
                    {"cause": "section-not-carried" if _section_open_at_cut(lines, cut) else "other", "part": "raised:" + type(e).__name__ if not _section_open_at_cut(lines, cut) else "*"},
                )
            stats["executions"] += 1
            stats["chunkings"] += 1
            if got != whole:
                from .rw import canon

                d = canon.first_diff(whole, got)
                raise core.Violation(
                    "C13",
                    "chunk-diff",
                    {"cut": sorted(cut), "first_difference": d, "text": text},
                    {"cause": "section-not-carried" if _section_open_at_cut(lines, cut) else "other", "part": _part(d) if not _section_open_at_cut(lines, cut) else "*"},
                )
        meta["interleavings"] = [core.digest(sorted(map(sorted, cuts)))[:8]]
        verdict = core.result_ok(dict(stats))
    except StopIteration:
        pass
    except core.Violation as v:
        verdict = core.result_violation(v, dict(stats))
    meta["sdig"] = core.digest([scenario["lines"], scenario["fmt"], scenario.get("fault")])
    meta["nontrivial"] = len(lines) >= 3
    verdict["meta"] = meta
    return verdict


def _part(d):
    if d is None:
        return None
    for k in ("data", "blocks", "symexprs", "alignment", "types", "flags", "cfg", "symbols", "nproxies", "name"):
        if "/" + k in d:
            return k
    return "other"


def _section_open_at_cut(lines, cut):
    """Is a non-.text section selected at one of the cut positions?"""
    cur = ".text"
    for i, l in enumerate(lines):
        if i in cut and cur != ".text":
            return True
        if l["t"] == "section":
            cur = ".text" if l["s"].strip() == ".text" else l["s"]
    return False


def _line_before_cut(lines, cut):
    c = min(cut)
    return lines[c - 1]["t"] + ">" + lines[c]["t"]


def describe(scenario):
    return {"asm": [l["s"] for l in scenario["lines"]], "fmt": scenario["fmt"], "fault": scenario.get("fault"), "allow_undef": scenario.get("allow_undef")}


def shrink_candidates(prop, scenario):
    n = len(scenario["lines"])
    for i in range(n):
        c = copy.deepcopy(scenario)
        del c["lines"][i]
        if c.get("fault"):
            c["fault"]["at"] = min(c["fault"]["at"], len(c["lines"]) - 1) if c["lines"] else 0
        if c["lines"]:
            yield c
    for key in ("trivially_unreachable", "allow_undef", "pie"):
        if scenario.get(key):
            c = copy.deepcopy(scenario)
            c[key] = False
            yield c
