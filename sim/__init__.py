"""Deterministic simulation with fault injection for gtirb-rewriting.

See /verif/DESIGN.md.  Everything random in a run derives from one integer
(VERIF_SEED -> per-run seed -> named sub-streams); scenarios are pure JSON
data; the driver is a pure function of (scenario, sigma, code).
"""
