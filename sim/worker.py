"""Worker process: executes runs / replays sent as JSON lines on stdin and
answers with one JSON line per task on the original stdout.  Started by
sim.runner with a fixed PYTHONHASHSEED."""

import faulthandler
import json
import os
import sys
import time
import traceback


def main():
    proto = os.fdopen(os.dup(1), "w", buffering=1)
    # anything the library prints must not corrupt the protocol
    os.dup2(2, 1)
    sys.stdout = sys.stderr

    sys.path.insert(0, os.path.dirname(os.path.dirname(os.path.abspath(__file__))))
    from sim import core

    core.use_repo_override()
    core.install_seams()
    from sim import engines

    per_task_cap = float(os.environ.get("VERIF_TASK_CAP", "120"))
    for line in sys.stdin:
        line = line.strip()
        if not line:
            continue
        task = json.loads(line)
        if task.get("op") == "quit":
            break
        faulthandler.dump_traceback_later(per_task_cap, exit=True)
        t0 = time.perf_counter()
        try:
            eng = engines.get(task["engine"])
            if task["op"] == "run":
                scenario, result = eng.run(
                    task["prop"], task["seed"], task.get("params") or {}
                )
            elif task["op"] == "replay":
                scenario = task["scenario"]
                result = eng.replay(
                    task["prop"], scenario, task.get("params") or {}
                )
            else:
                raise ValueError(task["op"])
            out = {"id": task["id"], "result": result}
            if result.get("verdict") != core.Verdict.OK or task.get(
                "want_scenario"
            ):
                out["scenario"] = scenario
            elif task.get("want_sample"):
                out["sample"] = eng.describe(scenario)
        except BaseException as e:  # harness error, never a violation
            out = {
                "id": task["id"],
                "result": {
                    "verdict": core.Verdict.HARNESS,
                    "error": f"{type(e).__name__}: {e}",
                    "trace": traceback.format_exc()[-4000:],
                },
            }
            if isinstance(e, (KeyboardInterrupt, SystemExit)):
                proto.write(json.dumps(out) + "\n")
                raise
        faulthandler.cancel_dump_traceback_later()
        out["wall"] = time.perf_counter() - t0
        proto.write(json.dumps(out, default=str) + "\n")
        proto.flush()


if __name__ == "__main__":
    main()
